/-
  C05 over HttpRpc (flat key/value documents): soft validation of `simple_dict_to_object`.
  Property theorems only, about the model instantiated with the facts regenerated from /repo
  (`Generated.facts03`, leaf switches `facts08`); side conditions on the facts by `decide`.

  The signature is given in the SHARED vocabulary (`SpyneModel/Types.lean`); `ofFields` is how the
  flat decoder sees it, `argsOf` reads the object graph it builds as shared native values
  (`SpyneModel/FlatShared.lean`). The right-hand side is the same `conformsFields` as for XML
  (`Props/C05_xml.lean`) and the dict-document family (`Props/C05_hier.lean`).

  Model of soft validation (SpyneModel/Flat.lean): `_to_native_values` (validate_string, from_unicode,
  validate_native, `None` iff nillable), the `frequencies` table (one entry per object instance, keyed by
  the path of (member, index) from the request object; incremented by `len(value)` at the end of a path and by
  one when a key creates an instance on its way), `_check_freq_dict` over every entry.
-/
import Proofs.FlatBridge
import Proofs.FlatPair
import Proofs.FlatQsP
import Proofs.FlatExamples
import SpyneModel.Generated.Facts03
import Props.Facts08Good
import Props.C05_hier
namespace SpyneModel.Props.C05flat
open SpyneModel SpyneModel.Flat SpyneModel.Generated

/-- the leaf codecs of the current tree obey the shared leaf laws (C08) -/
theorem leafLaws03 : LeafLaws facts03.leaf := SpyneModel.Props.leafLaws08

/-- frequencies are counted per member path, the count of a member is the number of values of ALL keys that address
    it (`evCount` sums: repeated key, indexed keys `tags[0]=a&tags[1]=b`, mixtures — `flat_soft_accepted_conforms` and
    `flat_soft_rejects_nonconformant` are about every such document), and EVERY object instance that is created gets an entry
    in the table — also the one `key=empty` creates (fix C05-06; without it this is `false` and an
    object made by `=empty` is never checked for its mandatory members) -/
theorem facts03_soft : facts03.freqScope = .perMember ∧ facts03.freqTouch = true ∧ facts03.freqAccumulates = true := by
  decide

/-- soft validation; `strict = false` is `strict_arrays = False`, the default -/
def softCfg (strict : Bool) (delim : Text) : Cfg := ⟨strict, true, delim⟩

/-! ### (⇒) whatever is delivered conforms -/

/-- For EVERY flat document — documented or not: unknown keys, repeated keys, keys that address the
    same member through different spellings, sparse or repeated indexes, `=empty` markers anywhere,
    keys without `=`, in any order — and every signature HttpRpc can serve (`flatSig`: nested classes,
    lists of primitives and of objects, wrapped arrays): if `simple_dict_to_object` with the soft
    validator returns a request object, then the arguments the user function receives satisfy EVERY
    declared constraint, at every nesting depth: nillability, `min_occurs`/`max_occurs` of every member
    of every object instance (array elements included), integer ranges and widths, string length,
    pattern, enumeration, lexical well-formedness. In both array modes (`strict_arrays` on or off; with it on,
    also the element 0 that a first key `a[1]…` makes the decoder fabricate is checked). -/
theorem flat_soft_accepted_conforms (strict : Bool) (delim : Text) (fields : List (Text × SpyneModel.Ty))
    (hs : flatSig fields = true) (doc : Doc) (node : Node)
    (h : decode facts03 (softCfg strict delim) (ofFields fields) doc = .ok node) :
    ∃ attrs, node = .obj attrs ∧ conformsFields fields (argsOf fields attrs) = true :=
  decode_soft_conforms facts03 leafLaws03 facts03_soft.1 facts03_soft.2.1 strict delim fields hs doc node h

/-- the same for the raw query string of a GET (or the body of a form POST): ANY text -/
theorem flat_soft_query_accepted_conforms (strict : Bool) (delim : Text) (fields : List (Text × SpyneModel.Ty))
    (hs : flatSig fields = true) (qs : Text) (node : Node)
    (h : decodeQs facts03 (softCfg strict delim) (ofFields fields) qs = .ok node) :
    ∃ attrs, node = .obj attrs ∧ conformsFields fields (argsOf fields attrs) = true :=
  flat_soft_accepted_conforms strict delim fields hs _ node h

/-- arguments that violate a declared constraint are never handed to the user function -/
theorem flat_soft_rejects_nonconformant (strict : Bool) (delim : Text) (fields : List (Text × SpyneModel.Ty))
    (hs : flatSig fields = true) (doc : Doc) (attrs : Attrs)
    (hnc : conformsFields fields (argsOf fields attrs) = false) :
    decode facts03 (softCfg strict delim) (ofFields fields) doc ≠ .ok (.obj attrs) := by
  intro h
  obtain ⟨a, ha, hc⟩ := flat_soft_accepted_conforms strict delim fields hs doc _ h
  simp only [Node.obj.injEq] at ha
  subst ha
  rw [hnc] at hc
  cases hc

/-! ### (⇐) a documented request that respects the constraints is accepted -/

/-- `flat_soft_accepts_conformant_partial`.
    Proved: for every flat signature (`WfSig`, `KeysOk`) and every request spelled in the documented
    notation (`WtMembers`: every leaf satisfies its facets; ANY strictly increasing choice of array
    indexes) in which every member of every object occurs as often as its class allows (`FreqConf`:
    a member that is left out counts 0, a list member counts its elements), the pairs in ANY order:
    the soft validator accepts, and the user function receives exactly the spelled object graph.
    By `documented_value_conforms` below the value so delivered conforms to the shared `conforms`.

    Full statement (not proved in this form): for every `args` with `conformsFields fields args = true`
    there is a flat document that the soft validator accepts and decodes to `args`.
    What is missing is only the passage from the shared value to its spelling; it cannot be total:
      * HttpRpc cannot say "a list with no element" for a list of primitives, nor `None` / an object with
        no member set as an ELEMENT of a list of objects (there is no key to write): such values have no
        flat document at all;
      * explicit null and absence coincide: a member that is `None` is left out, so it counts 0 and must be
        optional (`min_occurs = 0`). A mandatory nillable member can be sent as the key without `=`
        (value `None`, counted once); that spelling and `None` elements of primitive lists are outside the
        spelled values of this theorem and are covered at T3 only (`harness/c03.py: spell_shared`);
      * an empty string and a missing value coincide for Integer (`''` is None) but not for Unicode.
    Also not proved here: acceptance with `strict_arrays = True` under soft validation (without validation:
    `C03.documented_strict`); T3 exercises both array modes. -/
theorem flat_soft_accepts_conformant_partial (delim : Text) (fields : List Fld) (ms : Members) (doc : Doc)
    (hwf : WfSig fields) (hkeys : KeysOk delim fields) (hwt : WtMembers facts03 fields ms)
    (hfc : FreqConf fields ms) (hp : doc.Perm (docOf facts03 delim fields ms)) :
    decode facts03 (softCfg false delim) fields doc = .ok (.obj (expAttrs fields ms)) :=
  decode_documented_soft_lenient facts03 leafLaws03 facts03_soft.1 delim fields ms doc (by simp [facts03])
    hwf hkeys hwt hfc hp

/-- the same from the text of the query string -/
theorem flat_soft_accepts_query_partial (delim : Text) (fields : List Fld) (ms : Members)
    (pairs : List (Text × Option Text))
    (hwf : WfSig fields) (hkeys : KeysOk delim fields) (hwt : WtMembers facts03 fields ms)
    (hfc : FreqConf fields ms) (hne : ∀ p, p ∈ pairs → renderPair p ≠ [])
    (hp : (groupPairs pairs).Perm (docOf facts03 delim fields ms)) :
    decodeQs facts03 (softCfg false delim) fields (renderQs pairs) = .ok (.obj (expAttrs fields ms)) := by
  unfold decodeQs
  rw [parseQs_renderQs facts03 (by decide) pairs hne]
  exact flat_soft_accepts_conformant_partial delim fields ms _ hwf hkeys hwt hfc hp

/-- what such a documented request denotes conforms to the shared specification: over a signature
    given in the shared vocabulary, the spelled object graph read as native values satisfies
    `conformsFields` — so `FreqConf` + `WtMembers` are the flat form of "a conformant value". -/
theorem documented_value_conforms (delim : Text) (fields : List (Text × SpyneModel.Ty)) (ms : Members)
    (hs : flatSig fields = true) (hkeys : KeysOk delim (ofFields fields))
    (hwt : WtMembers facts03 (ofFields fields) ms) (hfc : FreqConf (ofFields fields) ms) :
    conformsFields fields (argsOf fields (expAttrs (ofFields fields) ms)) = true := by
  have hsig := hs
  simp only [flatSig, Bool.and_eq_true] at hsig
  have hwf : WfSig (ofFields fields) :=
    ⟨namesOk_of fields hsig.1.1 hsig.1.2, (wf_of_flatFields fields hsig.2).1⟩
  have hacc := flat_soft_accepts_conformant_partial delim (ofFields fields) ms _ hwf hkeys hwt hfc (List.Perm.refl _)
  obtain ⟨a, ha, hc⟩ := flat_soft_accepted_conforms false delim fields hs _ _ hacc
  simp only [Node.obj.injEq] at ha
  rw [ha]; exact hc

/-- soft validation only rejects: what it accepts is what no validation returns (C03 then says what) -/
theorem flat_soft_only_rejects (strict : Bool) (delim : Text) (fields : List Fld) (doc : Doc) (v : Node)
    (h : decode facts03 ⟨strict, true, delim⟩ fields doc = .ok v) :
    decode facts03 ⟨strict, false, delim⟩ fields doc = .ok v :=
  decode_soft_ok facts03 strict delim fields doc v h

/-! ### across protocols: the same `conforms` -/

/-- Whatever HttpRpc hands to the user function under soft validation is a request that every protocol
    of the dict-document family (JSON, YAML, MessagePack, MessagePack-RPC; both wrapper modes) accepts
    under soft validation as well, with the same arguments: the verdicts are taken against the one shared
    `conformsFields` (`flat_soft_accepted_conforms` here, `hier_soft_accepts_conformant` there).
    `hmp`, `hpl`: side conditions of the dict-document round trip itself (MessagePack integer width; values
    of the plain shape). -/
theorem flat_accepted_is_accepted_by_dict_protocols (strict : Bool) (delim : Text)
    (name ns : Text) (base : Option Text) (fields : List (Text × SpyneModel.Ty)) (o : SpyneModel.Occ)
    (hs : flatSig fields = true) (hwf : Hier.wfTy (.obj name ns base fields o) = true)
    (doc : Doc) (attrs : Attrs)
    (h : decode facts03 (softCfg strict delim) (ofFields fields) doc = .ok (.obj attrs))
    (p : Hier.Proto) (iw : Bool) (R : SpyneModel.Registry)
    (hmp : p.isMsgpack = true → Hier.fitsFields facts08 (argsOf fields attrs) = true)
    (hpl : Hier.plainFields .dict fields (argsOf fields attrs) = true) :
    Hier.decodeRequest facts08 facts02 (C05hier.softCfg p iw) R (.obj name ns base fields o)
      (Hier.requestDoc (C05hier.softCfg p iw) (Hier.convSpell facts08 (C05hier.softCfg p iw) .dict) R
        (.obj name ns base fields o) (.obj name (argsOf fields attrs)))
      = .good (.obj name (argsOf fields attrs)) := by
  obtain ⟨a, ha, hc⟩ := flat_soft_accepted_conforms strict delim fields hs doc _ h
  simp only [Node.obj.injEq] at ha
  subst ha
  exact C05hier.hier_soft_accepts_conformant p iw R name ns base fields o _ hwf hc hmp hpl

/-! ### non-vacuity -/

def exP : SpyneModel.Ty := .obj "P".toList "tns".toList none
  [("x".toList, .prim (.integer .unbounded {}) { nillable := false, minOccurs := 1 }),
   ("y".toList, .prim (.integer .unbounded {}) {})] {}

def exFields : List (Text × SpyneModel.Ty) :=
  [("n".toList, .prim (.integer .u8 { le := some 200 }) { nillable := false, minOccurs := 1 }),
   ("m".toList, .prim (.unicode 1 (some 3) none []) { maxOccurs := some 2 }),
   ("o".toList, exP),
   ("a".toList, .arr "P".toList exP {})]

def d (kvs : List (String × List String)) : Doc := kvs.map fun kv => (kv.1.toList, kv.2.map fun s => some s.toList)

example : flatSig exFields = true := by decide
-- 201 violates `le`; three strings violate max_occurs = 2; a missing `n` violates min_occurs = 1
example : Ex.isFault (decode facts03 (softCfg false ".".toList) (ofFields exFields) (d [("n", ["201"])])) = true := by
  decide +kernel
example : Ex.isFault (decode facts03 (softCfg false ".".toList) (ofFields exFields)
    (d [("n", ["7"]), ("m", ["a", "b", "c"])])) = true := by decide +kernel
example : Ex.isFault (decode facts03 (softCfg false ".".toList) (ofFields exFields) (d [("m", ["a"])])) = true := by
  decide +kernel
-- an object made by `=empty`, and an array element that sets nothing it must: the mandatory `x` is missed
example : Ex.isFault (decode facts03 (softCfg false ".".toList) (ofFields exFields)
    (d [("n", ["7"]), ("o", ["empty"])])) = true := by decide +kernel
example : Ex.isFault (decode facts03 (softCfg false ".".toList) (ofFields exFields)
    (d [("n", ["7"]), ("a[0].x", ["1"]), ("a[5].y", ["1"])])) = true := by decide +kernel
-- inside every bound: accepted
example : Ex.isOk (decode facts03 (softCfg false ".".toList) (ofFields exFields)
    (d [("n", ["200"]), ("m", ["abc", "d"]), ("o.x", ["5"]), ("a[3].x", ["1"]), ("a[1].x", ["2"])])) = true := by
  decide +kernel

-- the values of a list of primitives under indexed keys, under the repeated key, or both: every value counts
-- (`m` has max_occurs = 2; nested: `a[0].…` has no such member, so at the top level)
example : Ex.isFault (decode facts03 (softCfg false ".".toList) (ofFields exFields)
    (d [("n", ["7"]), ("m[0]", ["a"]), ("m[1]", ["b"]), ("m[2]", ["c"])])) = true := by decide +kernel
example : Ex.isFault (decode facts03 (softCfg false ".".toList) (ofFields exFields)
    (d [("n", ["7"]), ("m", ["a", "b"]), ("m[5]", ["c"])])) = true := by decide +kernel
example : Ex.isOk (decode facts03 (softCfg false ".".toList) (ofFields exFields)
    (d [("n", ["7"]), ("m[1]", ["b"]), ("m[0]", ["a"])])) = true := by decide +kernel
-- strict_arrays: a first key `a[1]…` fabricates element 0, which misses its mandatory `x`
example : Ex.isFault (decode facts03 (softCfg true ".".toList) (ofFields exFields)
    (d [("n", ["7"]), ("a[1].x", ["1"])])) = true := by decide +kernel
example : Ex.isOk (decode facts03 (softCfg true ".".toList) (ofFields exFields)
    (d [("n", ["7"]), ("a[1].x", ["1"]), ("a[0].x", ["2"])])) = true := by decide +kernel

end SpyneModel.Props.C05flat
