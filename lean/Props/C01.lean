/-
  C01 — XML/SOAP wire fidelity. Property theorems only.
-/
import SpyneModel.XmlSpec
import Props.Facts08Good
import SpyneModel.Generated.Facts01
namespace SpyneModel.Props.C01
open SpyneModel SpyneModel.Xml SpyneModel.Generated

/-- placeholder of the first slice: an absent optional member is not transmitted -/
theorem none_optional_omitted (cfg : Cfg) (I : Iface) (cns k : Text) (t : Ty) (h : t.occ.minOccurs = 0) :
    membersToParent facts08 cfg I cns [(k, t)] [(k, .none)] = [] := by
  simp [membersToParent, h]

end SpyneModel.Props.C01
