/-
  C01 — XML/SOAP wire fidelity: sent values reach the function, results reach the client.
  Property theorems only, about the model `SpyneModel.Xml` / `SpyneModel.Soap` instantiated with the
  facts regenerated from /repo (`facts08`, `factsXml`, `factsSoap`).

  Reading guide. `encode cfg I ns name t v` is `XmlDocument.to_parent` (what is put on the wire for a
  message / value `v` of declared type `t`), `decode cfg I t e` is `XmlDocument.from_element`.
  `conformsOne t v` is the shared specification (Types.lean). `normOne t v` applies exactly the three
  identifications of the statement (absent optional = None is built into the value representation;
  empty unwrapped sequence = None; empty byte string = None). Hypotheses: `tyWf t` (member names are
  unique, plain identifiers; enumeration members are non-empty; occurrence bounds consistent),
  `ifaceWf I` (class names / keys unique in the interface), `fitsV` (every integer literal fits
  `max_str_len(Integer)` = 1024 characters), `parseXsiType` (the protocol default).
  The same theorem instantiated at the out-message type is "the response decodes to the value the
  function returned" (the decoder is the one the Spyne client runs).
-/
import Proofs.XmlServer
import Proofs.XmlBridge
import Props.Facts08Good
import SpyneModel.Generated.Facts01
namespace SpyneModel.Props.C01
open SpyneModel SpyneModel.Xml SpyneModel.Generated

/-- the measured nil rule reads `xsi:nil="true"` as nil -/
theorem nil_true_is_nil : isNil factsXml [(xsiNilKey, "true".toList)] = true := by decide

/-- documents that denote a value with an explicit `xsi:nil="false"` / `"0"` are not read as null
    (switch `nilRule`) -/
theorem nil_false_carries_value (rest : List (Text × Text)) :
    isNil factsXml ((xsiNilKey, "false".toList) :: rest) = false ∧
    isNil factsXml ((xsiNilKey, "0".toList) :: rest) = false := by
  have h : factsXml.nilRule = .xsdBoolean := by decide
  simp [isNil, List.lookup, h]

/-- validators None and lxml: every conformant value survives the wire, for every type, every
    polymorphism setting. (`lxml` validation itself is libxml2, an oracle: C06.) -/
theorem xml_roundtrip (cfg : Cfg) (hv : cfg.validator ≠ .soft) (hP : cfg.parseXsiType = true)
    (I : Iface) (hI : ifaceWf I = true) (ns name : Text) (t : Ty) (ht : tyWf t = true)
    (v : Val) (hc : conformsOne t v = true) (hf : fitsV facts08 v = true) :
    ∃ e, encode facts08 cfg I ns name t v = [e] ∧
      decode facts08 factsXml cfg I t e = .ok (normOne t v) := by
  have hs : cfg.soft = false := by
    cases h : cfg.validator <;> simp_all [Cfg.soft]
  have C : RtCtx facts08 factsXml cfg I :=
    { L := leafLaws08, hE := by simp [hs], hN := nil_true_is_nil, hP := hP, hI := hI }
  have hok : okOneX I cfg.polymorphic cfg.soft t v = true :=
    okOneX_mono I (p := false) (s := false) (by simp) (by simp [hs]) t v (by rw [okOneX_eq]; exact hc)
  obtain ⟨e, he, hd⟩ := one_rt C ns name t ht v hok hf
  exact ⟨e, he, by rw [← normOneX_eq I t v hc]; exact hd⟩

/-- validator soft: the same for every value that conforms with an empty byte string counting as
    None (`okOneX I false true`: `conformsOne` plus "an empty byte string only where None is
    allowed", see `soft_sendable_conforms`) — the soft validator does not refuse what it should
    accept. Needs the repaired `unicode_from_element` (switch `emptyStringText`). -/
theorem xml_roundtrip_soft (cfg : Cfg) (hv : cfg.validator = .soft) (hP : cfg.parseXsiType = true)
    (I : Iface) (hI : ifaceWf I = true) (ns name : Text) (t : Ty) (ht : tyWf t = true)
    (v : Val) (hc : okOneX I false true t v = true) (hf : fitsV facts08 v = true) :
    ∃ e, encode facts08 cfg I ns name t v = [e] ∧
      decode facts08 factsXml cfg I t e = .ok (normOne t v) := by
  have hs : cfg.soft = true := by simp [Cfg.soft, hv]
  have C : RtCtx facts08 factsXml cfg I :=
    { L := leafLaws08, hE := fun _ => by decide, hN := nil_true_is_nil, hP := hP, hI := hI }
  have hok : okOneX I cfg.polymorphic cfg.soft t v = true :=
    okOneX_mono I (p := false) (s := true) (by simp) (by simp) t v hc
  have hc' : conformsOne t v = true := by
    rw [← okOneX_eq I]; exact okOneX_mono I (by simp) (by simp) t v hc
  obtain ⟨e, he, hd⟩ := one_rt C ns name t ht v hok hf
  exact ⟨e, he, by rw [← normOneX_eq I t v hc']; exact hd⟩

/-- what "sendable under soft validation" adds to the specification: nothing but the empty-bytes clause -/
theorem soft_sendable_conforms (I : Iface) (t : Ty) (v : Val) (h : okOneX I false true t v = true) :
    conformsOne t v = true := by
  rw [← okOneX_eq I]; exact okOneX_mono I (by simp) (by simp) t v h

/-- XmlDocument server (generate_contexts + get_in_object): a request for method `name` with
    conformant arguments `args` (a value of the in-message class `t`) is dispatched to `name` and the
    function receives exactly `normOne t args`; no fault, one call. -/
theorem server_request_fidelity_xml (cfg : Cfg) (hv : cfg.validator ≠ .soft) (hP : cfg.parseXsiType = true)
    (I : Iface) (hI : ifaceWf I = true) (ms : Soap.Methods) (name : Text) (t : Ty) (ht : tyWf t = true)
    (hm : ms.lookup (clark I.tns name) = some t)
    (args : Val) (hc : conformsOne t args = true) (hf : fitsV facts08 args = true) :
    ∃ e, encode facts08 cfg I I.tns name t args = [e] ∧
      Soap.xmlServerDecode facts08 factsXml cfg I ms e = .ok (clark I.tns name, normOne t args) := by
  have hs : cfg.soft = false := by
    cases h : cfg.validator <;> simp_all [Cfg.soft]
  have C : RtCtx facts08 factsXml cfg I :=
    { L := leafLaws08, hE := by simp [hs], hN := nil_true_is_nil, hP := hP, hI := hI }
  have hok : okOneX I cfg.polymorphic cfg.soft t args = true :=
    okOneX_mono I (p := false) (s := false) (by simp) (by simp [hs]) t args (by rw [okOneX_eq]; exact hc)
  obtain ⟨e, he, hd⟩ := xml_server_rt C ms name t ht hm args hok hf
  exact ⟨e, he, by rw [← normOneX_eq I t args hc]; exact hd⟩

/-- Soap11 / Soap12 server: the same through Envelope/Body -/
theorem server_request_fidelity_soap (cfg : Cfg) (hv : cfg.validator ≠ .soft) (hP : cfg.parseXsiType = true)
    (I : Iface) (hI : ifaceWf I = true) (ver : Soap.Version) (ms : Soap.Methods) (name : Text) (t : Ty)
    (ht : tyWf t = true) (hm : ms.lookup (clark I.tns name) = some t)
    (hnf : ¬ (I.tns = Soap.envNs ver ∧ name = "Fault".toList))
    (args : Val) (hc : conformsOne t args = true) (hf : fitsV facts08 args = true) :
    ∃ e, encode facts08 cfg I I.tns name t args = [e] ∧
      Soap.soapServerDecode facts08 factsXml factsSoap cfg I ver ms (Soap.envelope ver [e]) =
        .ok (clark I.tns name, normOne t args) := by
  have hs : cfg.soft = false := by
    cases h : cfg.validator <;> simp_all [Cfg.soft]
  have C : RtCtx facts08 factsXml cfg I :=
    { L := leafLaws08, hE := by simp [hs], hN := nil_true_is_nil, hP := hP, hI := hI }
  have hok : okOneX I cfg.polymorphic cfg.soft t args = true :=
    okOneX_mono I (p := false) (s := false) (by simp) (by simp [hs]) t args (by rw [okOneX_eq]; exact hc)
  obtain ⟨e, he, hd⟩ := soap_server_rt C factsSoap ver ms name t ht hm hnf args hok hf
  exact ⟨e, he, by rw [← normOneX_eq I t args hc]; exact hd⟩

/-- same two server theorems under soft validation -/
theorem server_request_fidelity_soft (cfg : Cfg) (hv : cfg.validator = .soft) (hP : cfg.parseXsiType = true)
    (I : Iface) (hI : ifaceWf I = true) (ver : Soap.Version) (ms : Soap.Methods) (name : Text) (t : Ty)
    (ht : tyWf t = true) (hm : ms.lookup (clark I.tns name) = some t)
    (hnf : ¬ (I.tns = Soap.envNs ver ∧ name = "Fault".toList))
    (args : Val) (hc : okOneX I false true t args = true) (hf : fitsV facts08 args = true) :
    ∃ e, encode facts08 cfg I I.tns name t args = [e] ∧
      Soap.xmlServerDecode facts08 factsXml cfg I ms e = .ok (clark I.tns name, normOne t args) ∧
      Soap.soapServerDecode facts08 factsXml factsSoap cfg I ver ms (Soap.envelope ver [e]) =
        .ok (clark I.tns name, normOne t args) := by
  have C : RtCtx facts08 factsXml cfg I :=
    { L := leafLaws08, hE := fun _ => by decide, hN := nil_true_is_nil, hP := hP, hI := hI }
  have hs : cfg.soft = true := by simp [Cfg.soft, hv]
  have hok : okOneX I cfg.polymorphic cfg.soft t args = true :=
    okOneX_mono I (p := false) (s := true) (by simp) (by simp) t args hc
  have hc' := soft_sendable_conforms I t args hc
  obtain ⟨e, he, hd⟩ := xml_server_rt C ms name t ht hm args hok hf
  obtain ⟨e', he', hd'⟩ := soap_server_rt C factsSoap ver ms name t ht hm hnf args hok hf
  have : e' = e := by rw [he] at he'; exact (List.cons.inj he').1.symm
  subst this
  exact ⟨e', he, by rw [← normOneX_eq I t args hc']; exact hd, by rw [← normOneX_eq I t args hc']; exact hd'⟩

/-! ### the identifications are exactly the three of the statement -/

/-- a value without empty byte strings and without empty unwrapped sequences is transmitted unchanged -/
theorem norm_bytes : normOne (.prim (.bytes .base64) {}) (.bytes []) = .none := by rfl
theorem norm_empty_repeated (t : Ty) (h : t.occ.repeated = true) : norm t (.list []) = .none := by
  simp [norm, h]
theorem norm_nonempty_bytes (e : BinEnc) (o : Occ) (b : Nat) (bs : List Nat) :
    normOne (.prim (.bytes e) o) (.bytes (b :: bs)) = .bytes (b :: bs) := by simp [normOne]
theorem norm_leaf_str (p : PrimTy) (o : Occ) (s : Text) : normOne (.prim p o) (.str s) = .str s := by
  simp [normOne]

/-! ### non-vacuity -/

def exInner : Ty := .obj "Inner".toList "urn:x".toList none
  [("x".toList, .prim (.integer .i8 {}) {}), ("s".toList, .prim (.unicode 0 none none []) { nillable := false, minOccurs := 1 })] {}
def exOuter : Ty := .obj "Outer".toList "urn:x".toList none
  [("i".toList, exInner), ("l".toList, .arr "integer".toList (.prim (.integer .unbounded {}) {}) {}),
   ("r".toList, .prim (.integer .unbounded {}) { maxOccurs := some 3 }), ("b".toList, .prim (.bytes .base64) {})] {}
def exVal : Val := .obj "Outer".toList
  [("i".toList, .obj "Inner".toList [("x".toList, .int (-128)), ("s".toList, .str [])]),
   ("l".toList, .list [.int 1, .none]), ("r".toList, .list []), ("b".toList, .bytes [])]

example : tyWf exOuter = true := by decide
example : conformsOne exOuter exVal = true := by rw [← okOneX_eq { classes := [] }]; rfl
example : okOneX { classes := [] } false true exOuter exVal = true := by rfl
example : ifaceWf { classes := [] } = true := by decide
example : normOne exOuter exVal = .obj "Outer".toList
  [("i".toList, .obj "Inner".toList [("x".toList, .int (-128)), ("s".toList, .str [])]),
   ("l".toList, .list [.int 1, .none]), ("r".toList, .none), ("b".toList, .none)] := by rfl

end SpyneModel.Props.C01
