/-
  C03 — HttpRpc flat key/value fidelity.
  Property theorems only; every theorem is about the model instantiated with the facts
  regenerated from /repo (`Generated.facts03`), side conditions discharged by `decide`/`simp`
  on those facts (so they are re-checked against what the code does now).

  Vocabulary (SpyneModel/FlatSpec.lean): `Members`/`SVal` a value as the documented notation
  spells it, with the writer's choice of (strictly increasing) array indexes; `docOf` its flat
  document; `expAttrs` the object graph the user function must receive; `WfSig`/`KeysOk`
  well-formed signature (distinct bracket-free names, no two members with the same flattened key);
  `WtMembers` the value fits the signature.
-/
import Proofs.FlatDoc
import Proofs.FlatOrder
import Proofs.FlatQsP
import Proofs.FlatRet
import Proofs.FlatDate
import Proofs.FlatNatural
import Proofs.FlatRound
import Proofs.FlatExamples
import Proofs.FlatDecl
import SpyneModel.Generated.Facts03
import Props.Facts08Good
namespace SpyneModel.Props.C03
open SpyneModel SpyneModel.Flat SpyneModel.Generated

/-- the leaf codecs of the current tree obey the shared leaf laws (C08) -/
theorem leafLaws03 : LeafLaws facts03.leaf := SpyneModel.Props.leafLaws08

/-! ### the documented notation reaches the user function, whatever the order of the pairs -/

/-- For every signature (nested classes, arrays of objects and of primitives, classes reused between
    members), every value spelled in the documented flattened notation with ANY strictly increasing
    (sparse or contiguous) choice of array indexes, every `hier_delim` without `[`, and ANY order of
    the keys of the flat document: `simple_dict_to_object` (idxmap branch, no validator) returns
    exactly the spelled object graph, every array in index order. -/
theorem documented_any_order (cfg : Cfg) (fields : List Fld) (ms : Members) (doc : Doc)
    (hstrict : cfg.strict = false) (hsoft : cfg.soft = false)
    (hwf : WfSig fields) (hkeys : KeysOk cfg.delim fields) (hwt : WtMembers facts03 fields ms)
    (hp : doc.Perm (docOf facts03 cfg.delim fields ms)) :
    decode facts03 cfg fields doc = .ok (.obj (expAttrs fields ms)) :=
  decode_documented_lenient facts03 leafLaws03 cfg fields ms doc hstrict hsoft (by simp [facts03]) hwf hkeys hwt hp

/-- The same from the query string: any list of `name=value` pairs — percent-encoded, joined by
    `&` — whose grouping by name (what `_parse_qs` builds: names in order of first occurrence, the
    values of one name in their order) is a permutation of the documented flat document. -/
theorem documented_query_string (cfg : Cfg) (fields : List Fld) (ms : Members)
    (pairs : List (Text × Option Text))
    (hstrict : cfg.strict = false) (hsoft : cfg.soft = false)
    (hwf : WfSig fields) (hkeys : KeysOk cfg.delim fields) (hwt : WtMembers facts03 fields ms)
    (hne : ∀ p, p ∈ pairs → renderPair p ≠ [])
    (hp : (groupPairs pairs).Perm (docOf facts03 cfg.delim fields ms)) :
    decodeQs facts03 cfg fields (renderQs pairs) = .ok (.obj (expAttrs fields ms)) := by
  unfold decodeQs
  rw [parseQs_renderQs facts03 (by decide) pairs hne]
  exact documented_any_order cfg fields ms _ hstrict hsoft hwf hkeys hwt hp

/-- For EVERY flat document (documented or not), every signature and every configuration
    (strict_arrays on or off, validator None or soft): permuting the keys does not change the
    outcome — value, fault or crash — as long as no two keys are equal for the sort
    (`orderKey`: the key with its indexes read as numbers). -/
theorem pair_order_irrelevant (cfg : Cfg) (fields : List Fld) (doc doc' : Doc) (hp : doc.Perm doc')
    (hn : (doc.map (fun kv => orderKey facts03 kv.1)).Nodup) :
    decode facts03 cfg fields doc = decode facts03 cfg fields doc' :=
  decode_perm facts03 cfg fields doc doc' hp hn

/-- `strict_arrays = True`: every array numbered 0, 1, 2, … (no gap), the pairs in ANY order.
    The keys are processed in the order the current tree sorts them (`facts03.keyOrder`, natural:
    indexes compare as numbers), every index is then an existing position or the next one, and
    the user function receives exactly the spelled object. With the lexicographic order of the
    pinned tree this theorem does not type-check (`a[10]` comes before `a[2]`), see
    `lexicographic_order_rejects_twelve_elements`. -/
theorem documented_strict (cfg : Cfg) (fields : List Fld) (ms : Members) (doc : Doc)
    (hstrict : cfg.strict = true) (hsoft : cfg.soft = false)
    (hwf : WfSig fields) (hkeys : KeysOk cfg.delim fields) (hwt : WtMembers facts03 fields ms)
    (hcontig : ContigMembers ms) (hp : doc.Perm (docOf facts03 cfg.delim fields ms)) :
    decode facts03 cfg fields doc = .ok (.obj (expAttrs fields ms)) :=
  decode_documented_strict facts03 leafLaws03 (by decide) cfg fields ms doc hstrict hsoft (by simp [facts03]) hwf hkeys hwt
    hcontig hp

/-- twelve elements with strict arrays are accepted by the current tree (model, computed) -/
example : Ex.isOk (decode facts03 ⟨true, false, Ex.dot⟩ Ex.sig Ex.twelve) = true := by decide +kernel

/-- the order `sorted(doc.items(), key=...)` uses puts the keys of a request index-first: of two
    written keys that agree up to some array, the one with the smaller index is not the larger -/
theorem key_order_sorts_indexes (delim : Text) (hd : ∀ c, c ∈ delim → c ≠ '[')
    (segs1 segs2 : List (Text × Option Nat))
    (h1 : ∀ s, s ∈ segs1 → ∀ c, c ∈ s.1 → c ≠ '[') (h2 : ∀ s, s ∈ segs2 → ∀ c, c ∈ s.1 → c ≠ '[')
    (hk : ¬ KLe segs1 segs2) :
    keyLt facts03 (renderKey delim segs2) (renderKey delim segs1) = true := by
  have := natural_lt_of_not_KLe delim hd segs1 segs2 [] h1 h2 hk
  simpa [keyLt, facts03, toks] using this

/-- witness for the lexicographic key order (D22): twelve elements with strict arrays are rejected -/
theorem lexicographic_order_rejects_twelve_elements :
    Ex.isFault (decode { facts03 with keyOrder := .lexicographic } ⟨true, false, Ex.dot⟩ Ex.sig Ex.twelve) = true := by
  decide +kernel

/-! ### object -> flat dict -> object -/

/-- `object_to_simple_dict` writes the documented notation: for the object a canonical spelled
    value denotes (members in class order, arrays numbered from 0, no member-less objects; classes
    without mandatory members), the flat dict with every value as text IS the documented document. -/
theorem encode_is_documented (delim : Text) (fields : List Fld) (ms : Members)
    (hwf : WfSig fields) (hopt : OptFields fields) (hwt : WtMembers facts03 fields ms)
    (hcontig : ContigMembers ms) (hord : InOrder fields ms) :
    toDoc facts03 (encode delim fields (.obj (expAttrs fields ms))) = docOf facts03 delim fields ms :=
  toDoc_encode facts03 delim fields ms hwf hopt hwt hcontig hord

/-- … and maps back to an equal object, with strict arrays or without. -/
theorem roundtrip (cfg : Cfg) (fields : List Fld) (ms : Members) (hsoft : cfg.soft = false)
    (hwf : WfSig fields) (hkeys : KeysOk cfg.delim fields) (hopt : OptFields fields)
    (hwt : WtMembers facts03 fields ms) (hcontig : ContigMembers ms) (hord : InOrder fields ms) :
    decode facts03 cfg fields (toDoc facts03 (encode cfg.delim fields (.obj (expAttrs fields ms)))) =
      .ok (.obj (expAttrs fields ms)) := by
  rw [encode_is_documented cfg.delim fields ms hwf hopt hwt hcontig hord]
  cases hs : cfg.strict with
  | false => exact documented_any_order cfg fields ms _ hs hsoft hwf hkeys hwt (List.Perm.refl _)
  | true => exact documented_strict cfg fields ms _ hs hsoft hwf hkeys hwt hcontig (List.Perm.refl _)

/-! ### members that go by a `sub_name` -/

/-- For every declared signature — members with or without `sub_name`, at every nesting depth, inside
    argument objects and array elements — the flat signature the member table is built for names every
    member by its OWN `sub_name` (its Python name when it has none): the keys of the documented notation
    (`order.item.qty`, `order.lines[1].qty`) are the keys the decoder knows. And a ByteArray member that
    declares its `encoding` (hex, base64, urlsafe base64) is read and written with THAT codec, the protocol's
    urlsafe base64 only serving members that declare none — so `documented_any_order_sub_names` and
    `roundtrip_sub_names` below hold for every declared encoding (`LeafLaws.roundtrip` for each codec). -/
theorem sub_names_at_every_depth (dfields : List DFld) :
    keyedFields facts03 none dfields = ownFields dfields :=
  keyedFields_own facts03 (by decide) (by decide) none dfields

/-- hence the documented notation written with the members' own sub_names reaches the user function,
    pairs in any order … -/
theorem documented_any_order_sub_names (cfg : Cfg) (dfields : List DFld) (ms : Members) (doc : Doc)
    (hstrict : cfg.strict = false) (hsoft : cfg.soft = false)
    (hwf : WfSig (ownFields dfields)) (hkeys : KeysOk cfg.delim (ownFields dfields))
    (hwt : WtMembers facts03 (ownFields dfields) ms)
    (hp : doc.Perm (docOf facts03 cfg.delim (ownFields dfields) ms)) :
    decode facts03 cfg (keyedFields facts03 none dfields) doc = .ok (.obj (expAttrs (ownFields dfields) ms)) := by
  rw [sub_names_at_every_depth]
  exact documented_any_order cfg _ ms doc hstrict hsoft hwf hkeys hwt hp

/-- … and what `object_to_simple_dict` writes for such an object maps back to an equal object. -/
theorem roundtrip_sub_names (cfg : Cfg) (dfields : List DFld) (ms : Members) (hsoft : cfg.soft = false)
    (hwf : WfSig (ownFields dfields)) (hkeys : KeysOk cfg.delim (ownFields dfields))
    (hopt : OptFields (ownFields dfields))
    (hwt : WtMembers facts03 (ownFields dfields) ms) (hcontig : ContigMembers ms)
    (hord : InOrder (ownFields dfields) ms) :
    decode facts03 cfg (keyedFields facts03 none dfields)
        (toDoc facts03 (encode cfg.delim (ownFields dfields) (.obj (expAttrs (ownFields dfields) ms)))) =
      .ok (.obj (expAttrs (ownFields dfields) ms)) := by
  rw [sub_names_at_every_depth]
  exact roundtrip cfg _ ms hsoft hwf hkeys hopt hwt hcontig hord

example : keyedFields facts03 none
    [("order".toList, {}, Ex.occ1, .obj 1 [("quantity".toList, { sub := some "qty".toList }, Ex.occ1, .prim Ex.pInt)])] =
    [("order".toList, Ex.occ1, .obj 1 [("qty".toList, Ex.occ1, .prim Ex.pInt)])] := by
  simp [keyedFields, keyedTy, keyName, facts03, effPrim, Ex.pInt]

/-- the declared signature as the decoder is run on it, and the instance as the user function sees it: a
    member no key assigned shows its `default`, a `read_only` member is never assigned -/
def decodeDecl (cfg : Cfg) (dfields : List DFld) (doc : Doc) : Outcome Node :=
  omap (finishNode (.obj 0 dfields)) (decode facts03 cfg (keyedFields facts03 none dfields) doc)

/-- the documented request over a signature with sub_names, defaults and read-only members, pairs in any
    order: exactly the spelled object graph, defaults filled in where the request says nothing -/
theorem documented_defaults_and_read_only (cfg : Cfg) (dfields : List DFld) (ms : Members) (doc : Doc)
    (hstrict : cfg.strict = false) (hsoft : cfg.soft = false)
    (hwf : WfSig (ownFields dfields)) (hkeys : KeysOk cfg.delim (ownFields dfields))
    (hwt : WtMembers facts03 (ownFields dfields) ms)
    (hp : doc.Perm (docOf facts03 cfg.delim (ownFields dfields) ms)) :
    decodeDecl cfg dfields doc =
      .ok (finishNode (.obj 0 dfields) (.obj (expAttrs (ownFields dfields) ms))) := by
  unfold decodeDecl
  rw [documented_any_order_sub_names cfg dfields ms doc hstrict hsoft hwf hkeys hwt hp]
  rfl

example : finishNode (.obj 0 [("a".toList, { dflt := some (.int 5) }, Ex.occ1, .prim Ex.pInt),
      ("c".toList, { readOnly := true }, Ex.occ1, .prim Ex.pInt), ("d".toList, {}, Ex.occ1, .prim Ex.pInt)])
    (.obj [("a".toList, .none), ("c".toList, .leaf (.int 9)), ("d".toList, .leaf (.int 2))]) =
    .obj [("a".toList, .leaf (.int 5)), ("c".toList, .none), ("d".toList, .leaf (.int 2))] := by
  simp [finishNode, finishAttrs, dfltNode]

/-! ### the in-header: HTTP request headers as a flat document -/

/-- The request headers `HTTP_<NAME>` (names distinct up to case) reach the declared in-header class as the
    flat document `<name in lower case> -> [value]`: when that is the documented notation of a header object
    (in any order — a WSGI environment is a dict), `ctx.in_header` is exactly that object. -/
theorem in_header_delivered (cfg : Cfg) (hfields : List Fld) (ms : Members) (ps : List (Text × Text))
    (hstrict : cfg.strict = false) (hsoft : cfg.soft = false)
    (hn : (ps.map (fun p => p.1.map asciiLower)).Nodup)
    (hwf : WfSig hfields) (hkeys : KeysOk cfg.delim hfields) (hwt : WtMembers facts03 hfields ms)
    (hp : (ps.map fun p => (p.1.map asciiLower, [some p.2])).Perm (docOf facts03 cfg.delim hfields ms)) :
    decode facts03 cfg hfields (httpHeaders (ps.map fun p => ("HTTP_".toList ++ p.1, p.2))) =
      .ok (.obj (expAttrs hfields ms)) := by
  rw [httpHeaders_pairs ps hn]
  exact documented_any_order cfg hfields ms _ hstrict hsoft hwf hkeys hwt hp

/-- `ByteArray(encoding='hex')`: `?k=deadbeef` are the four bytes de ad be ef, not the urlsafe-base64 reading -/
example : (match decode facts03 ⟨false, false, Ex.dot⟩
      (keyedFields facts03 none [("k".toList, { encDeclared := true }, Ex.occ1, .prim (.bytes .hex))])
      [("k".toList, [some "deadbeef".toList])] with
    | .ok (.obj [(_, .leaf (.bytes bs))]) => bs
    | _ => []) = [222, 173, 190, 239] := by decide +kernel

/-! ### shared instances -/

/-- Flattening ignores sharing: a value in which the very same instance sits at several places (two members,
    twice in a list, at any depth) — given with the identity of every object, no reference back to the root —
    is written exactly as its tree: every occurrence with all its keys. (`tags` of `object_to_simple_dict`
    guards the root only; a set of all visited instances would drop the second occurrence: T1 `encGuard`.) -/
theorem flattening_ignores_sharing (delim : Text) (fields : List Fld) (id : Nat) (attrs : List (Text × LNode))
    (h : id ∉ idsAttrsL attrs) :
    encodeShared facts03 delim fields (.obj id attrs) = encode delim fields (stripL (.obj id attrs)) :=
  encodeShared_tree facts03 (by decide) delim fields id attrs h

/-- … so the round trip of `roundtrip` holds for values with shared instances as well -/
theorem roundtrip_shared (cfg : Cfg) (fields : List Fld) (ms : Members) (id : Nat) (attrs : List (Text × LNode))
    (hsoft : cfg.soft = false) (hid : id ∉ idsAttrsL attrs)
    (hval : stripL (.obj id attrs) = .obj (expAttrs fields ms))
    (hwf : WfSig fields) (hkeys : KeysOk cfg.delim fields) (hopt : OptFields fields)
    (hwt : WtMembers facts03 fields ms) (hcontig : ContigMembers ms) (hord : InOrder fields ms) :
    decode facts03 cfg fields (toDoc facts03 (encodeShared facts03 cfg.delim fields (.obj id attrs))) =
      .ok (.obj (expAttrs fields ms)) := by
  rw [flattening_ignores_sharing cfg.delim fields id attrs hid, hval]
  exact roundtrip cfg fields ms hsoft hwf hkeys hopt hwt hcontig hord

/-! ### before the protocol: the transport's WSDL shortcut -/

/-- A GET is answered with the WSDL instead of a method call only when the query string IS a request
    for it: it starts with `wsdl` (any case) and that is the whole query, or `=` follows (`?wsdl`, `?WSDL=…`).
    A value or key that merely ends in / contains `wsdl`, in whatever position, never hides the call. -/
theorem wsdl_only_when_asked (qs : Text) (h : isWsdl facts03 qs = true) :
    ∃ w rest, qs = w ++ rest ∧ w.map asciiLower = "wsdl".toList ∧ (rest = [] ∨ ∃ r, rest = '=' :: r) :=
  isWsdl_firstName facts03 (by decide) qs h

/-- `pair_order_irrelevant`, from the transport on: two query strings, neither a request for the WSDL,
    whose parsed documents are permutations of each other (no two keys equal for the sort) have the same
    outcome — for EVERY such text, configuration and signature. -/
theorem pair_order_irrelevant_http (cfg : Cfg) (fields : List Fld) (qs qs' : Text)
    (h1 : isWsdl facts03 qs = false) (h2 : isWsdl facts03 qs' = false)
    (hp : (parseQs facts03 qs).Perm (parseQs facts03 qs'))
    (hn : ((parseQs facts03 qs).map (fun kv => orderKey facts03 kv.1)).Nodup) :
    httpGet facts03 cfg fields qs = httpGet facts03 cfg fields qs' := by
  simp only [httpGet, h1, h2, Bool.false_eq_true, if_false, decodeQs]
  rw [pair_order_irrelevant cfg fields _ _ hp hn]

example : isWsdl facts03 "doc.kind=soap&n=1&doc.name=stock.wsdl".toList = false ∧
    isWsdl facts03 "a=WSDL".toList = false ∧ isWsdl facts03 "n=1&wsdl".toList = false ∧
    isWsdl facts03 "wsdl&n=1".toList = false ∧ isWsdl facts03 "xwsdl=1".toList = false ∧
    isWsdl facts03 "WsDl".toList = true ∧ isWsdl facts03 "wsdl=&n=1".toList = true := by decide +kernel

/-! ### result hand-over: body styles and declared text encodings -/

/-- whatever `_body_style` the method declares (wrapped, bare, out_bare), the single primitive result is what HttpRpc
    serializes: `return_exact` holds for all three -/
theorem return_any_body_style (bs : BodyStyle) (ret : RetVal) : resultOf facts03 bs ret = .ok ret := by
  cases bs <;> simp [resultOf, facts03]

/-- a return type that declares its text encoding is sent in THAT encoding (`e`: its codec, any), exactly the text of the
    value; a type that declares none is sent as UTF-8 (`return_exact`) -/
theorem return_declared_encoding (e : Text → List Nat) (p : PK) (v : Leaf) (text : Text)
    (ht : leafText facts03 p v = some text) :
    retBodyEnc facts03 (some e) (.leaf p v) = e text ∧ retBodyEnc facts03 none (.leaf p v) = utf8Enc text := by
  have hF : facts03.retEncDeclaredWins = true := by decide
  simp only [retBodyEnc, ht, hF, if_true, and_self]

/-! ### the mechanisms the notation rests on -/

/-- `_s2cmi` + `list.insert`: elements with pairwise distinct sparse indexes, arriving in any
    order, end up in increasing index order; the idxmap sends every index to its rank. -/
theorem s2cmi_index_order {α : Type} (ixs : List (Nat × α)) (hnd : (ixs.map Prod.fst).Nodup)
    (js : List Nat) (hs : StrictInc js) (hp : (ixs.map Prod.fst).Perm js) (d : α) :
    (insertAll ixs ([], [])).2 = js.map (fun j => (ixs.lookup j).getD d) ∧
    ∀ j, j ∈ js → mapGet (insertAll ixs ([], [])).1 j = some (rank js j) :=
  s2cmi_rank ixs hnd js hs hp d

/-- `RE_HTTP_ARRAY_INDEX` on a written key `a.b[3].c`: removing the indexes gives the key of the
    member table, finding them gives the indexes in order — for any delimiter and names without `[`. -/
theorem key_indexes (delim : Text) (segs : List (Text × Option Nat))
    (hd : ∀ c, c ∈ delim → c ≠ '[') (hs : ∀ s, s ∈ segs → ∀ c, c ∈ s.1 → c ≠ '[') :
    stripIdx (renderKey delim segs) = joinKey delim (segs.map Prod.fst) ∧
    findIdx (renderKey delim segs) = segs.filterMap Prod.snd :=
  ⟨stripIdx_renderKey delim segs hd hs, findIdx_renderKey delim segs hd hs⟩

/-- percent coding is lossless for every text (any Unicode scalar values) -/
theorem percent_coding_lossless (s : Text) : unquote (quote s) = s := unquote_quote s

/-- `_parse_qs` reads a written list of pairs back as those pairs: names in order of first
    occurrence, the values of a repeated name in their order, a name without `=` as None -/
theorem parse_qs_of_written (pairs : List (Text × Option Text)) (hne : ∀ p, p ∈ pairs → renderPair p ≠ []) :
    parseQs facts03 (renderQs pairs) = groupPairs pairs :=
  parseQs_renderQs facts03 (by decide) pairs hne

/-- the text of a primitive is read back as the value (integers within the length guard of the tree) -/
theorem leaf_text_exact (p : PK) (v : Leaf) (h : LeafOk facts03 p v) (soft nillable : Bool) :
    ∃ s, leafText facts03 p v = some s ∧ nativeOf facts03 soft nillable p (some s) = .ok v :=
  leafFrom_leafText facts03 leafLaws03 p v h soft nillable

/-! ### validator = soft -/

/-- soft validation only ever rejects: what it accepts is what the unvalidated decoder returns -/
theorem soft_only_rejects (strict : Bool) (delim : Text) (fields : List Fld) (doc : Doc) (v : Node)
    (h : decode facts03 ⟨strict, true, delim⟩ fields doc = .ok v) :
    decode facts03 ⟨strict, false, delim⟩ fields doc = .ok v :=
  decode_soft_ok facts03 strict delim fields doc v h

/-- FULL STATEMENT (not proved): with `validator='soft'` every documented request whose value
    respects `min_occurs`/`max_occurs` is accepted and gives `expAttrs` — i.e. the frequency table
    (`freqOk`) never rejects a conformant request. Proved part: soft validation cannot change the
    value — whenever it accepts a documented request, the user function receives exactly the
    spelled object (strict arrays or not). Missing: `freqOk` holds for conformant documented
    requests (a count of the increments along the walk); covered by T2/T3 only. -/
theorem documented_soft_partial (cfg : Cfg) (fields : List Fld) (ms : Members) (doc : Doc) (v : Node)
    (hsoft : cfg.soft = true)
    (hwf : WfSig fields) (hkeys : KeysOk cfg.delim fields) (hwt : WtMembers facts03 fields ms)
    (hcontig : cfg.strict = true → ContigMembers ms)
    (hp : doc.Perm (docOf facts03 cfg.delim fields ms))
    (hacc : decode facts03 cfg fields doc = .ok v) : v = .obj (expAttrs fields ms) := by
  obtain ⟨strict, soft, delim⟩ := cfg
  simp only at hsoft hcontig hkeys hp
  subst hsoft
  have h0 := soft_only_rejects strict delim fields doc v hacc
  cases strict with
  | false =>
    rw [documented_any_order ⟨false, false, delim⟩ fields ms doc rfl rfl hwf hkeys hwt hp] at h0
    exact (Outcome.ok.inj h0).symm
  | true =>
    rw [documented_strict ⟨true, false, delim⟩ fields ms doc rfl rfl hwf hkeys hwt (hcontig rfl) hp] at h0
    exact (Outcome.ok.inj h0).symm

/-- two arguments of the same class are counted separately by the frequency table of soft
    validation (`facts03.freqScope`) and both get their members (`facts03.tagScope`):
    `f(a: Inner, b: Inner)`, `a.x=1&b.x=2`, validator soft, is accepted with both values -/
theorem same_class_arguments_soft :
    Ex.isOk (decode facts03 ⟨false, true, Ex.dot⟩ Ex.sigAB Ex.docAB) = true ∧
    Ex.isOk (decode facts03 ⟨true, true, Ex.dot⟩ Ex.sigAB Ex.docAB) = true := by
  decide +kernel

/-! ### a single primitive return value -/

/-- the body is exactly the UTF-8 of the value's text (which reads back as the value), the
    response starts with Content-Type and ends with the truthful Content-Length, and every declared
    out-header member that is set is sent under its name with its exact text -/
theorem return_exact (mime : Text) (hdrFields : List Fld) (hp : PrimHeader hdrFields) (attrs : Attrs)
    (p : PK) (v : Leaf) (text : Text) (ht : leafText facts03 p v = some text) :
    (response facts03 mime hdrFields (.obj attrs) (.leaf p v)).2 = utf8Enc text ∧
    utf8Dec (response facts03 mime hdrFields (.obj attrs) (.leaf p v)).2 = text ∧
    (response facts03 mime hdrFields (.obj attrs) (.leaf p v)).1.head? = some ("Content-Type".toList, mime) ∧
    (response facts03 mime hdrFields (.obj attrs) (.leaf p v)).1.getLast? =
      some ("Content-Length".toList, natText (utf8Enc text).length) ∧
    ∀ n (occ : Flat.Occ) hp' hv htext, (n, occ, Flat.Ty.prim hp') ∈ hdrFields → getAttr attrs n = .leaf hv →
      hdrText facts03 hp' hv = some htext →
      (n, htext) ∈ (response facts03 mime hdrFields (.obj attrs) (.leaf p v)).1 := by
  have hb := response_body facts03 mime hdrFields (.obj attrs) p v text ht
  have hf := response_frame facts03 mime hdrFields (.obj attrs) (.leaf p v)
  refine ⟨hb.1, hb.2, hf.1, ?_, ?_⟩
  · rw [hf.2, hb.1]
  · intro n occ hp' hv htext hmem hget htx
    exact response_header facts03 mime hdrFields hp attrs (.leaf p v) n occ hp' hmem hv htext hget htx

/-- A declared out-header member of type DateTime (`__out_header__`, e.g. `Expires`) is sent as an
    RFC 1123 date in GMT that denotes the SAME INSTANT as the value that was set: an aware value
    of any UTC offset is converted (not relabelled), a naive value is taken as GMT. Other declared
    members (Integer, Unicode, Boolean) carry their exact text (`return_exact`). -/
theorem out_header_datetime_same_instant (mime : Text) (hdrFields : List Fld) (hp : PrimHeader hdrFields)
    (attrs : Attrs) (ret : RetVal) (n : Text) (occ : Flat.Occ) (x : DateTime)
    (hf : (n, occ, Flat.Ty.prim .dateTime) ∈ hdrFields) (hv : getAttr attrs n = .leaf (.dt x))
    (hx : x.valid = true) (hfirst : ¬ (x.date.y = 1 ∧ x.date.m = 1 ∧ x.date.d = 1)) :
    (n, rfc1123 (toUtc x)) ∈ (response facts03 mime hdrFields (.obj attrs) ret).1 ∧
    (toUtc x).tz = some 0 ∧ instantSec (toUtc x) = instantSec x ∧
    (toUtc x).time.h < 24 ∧ (toUtc x).time.mi < 60 ∧ (toUtc x).time.s = x.time.s := by
  have h := toUtc_instant x hx hfirst
  exact ⟨response_header facts03 mime hdrFields hp attrs ret n occ .dateTime hf (.dt x) _ hv rfl, h.2.1, h.1, h.2.2⟩

/-- raw bytes (ByteArray) are sent as they are -/
theorem return_bytes_exact (mime : Text) (hdrFields : List Fld) (hdr : Node) (chunks : List (List Nat)) :
    (response facts03 mime hdrFields hdr (.bytes chunks)).2 = chunks.flatMap id := rfl

/-! ### non-vacuity: the hypotheses are met by a concrete request
    `f(p: Array(C), q: Boolean)`, `class C: i = Integer; s = Unicode`,
    `q=true&p[10].i=5&p[2].s=x&p[2].i=7` -/

example : WfSig Ex.sig ∧ KeysOk Ex.dot Ex.sig ∧ OptFields Ex.sig := ⟨Ex.sig_wf, Ex.sig_keys, Ex.sig_opt⟩
example : WtMembers facts03 Ex.sig Ex.sparse := Ex.sparse_wt
example : WtMembers facts03 Ex.sig Ex.contig ∧ ContigMembers Ex.contig ∧ InOrder Ex.sig Ex.contig :=
  ⟨Ex.contig_wt, Ex.contig_contig, Ex.contig_inorder⟩

/-- the pairs in another order than the documented document lists them -/
example : ([("q".toList, [some "true".toList]), ("p[10].i".toList, [some "5".toList]),
            ("p[2].s".toList, [some "x".toList]), ("p[2].i".toList, [some "7".toList])] : Doc).Perm
    (docOf facts03 Ex.dot Ex.sig Ex.sparse) := by decide +kernel

example : decode facts03 ⟨false, false, Ex.dot⟩ Ex.sig
    [("q".toList, [some "true".toList]), ("p[10].i".toList, [some "5".toList]),
     ("p[2].s".toList, [some "x".toList]), ("p[2].i".toList, [some "7".toList])]
    = .ok (.obj (expAttrs Ex.sig Ex.sparse)) :=
  documented_any_order ⟨false, false, Ex.dot⟩ Ex.sig Ex.sparse _ rfl rfl Ex.sig_wf Ex.sig_keys Ex.sparse_wt
    (by decide +kernel)

example : (insertAll [(7, 'c'), (0, 'a'), (3, 'b')] ([], [])).2 = ['a', 'b', 'c'] := by decide
example : unquote (quote "a&b=c é✓".toList) = "a&b=c é✓".toList := percent_coding_lossless _
example : parseQs facts03 "p=1&q=2;p=%33+".toList =
    [("p".toList, [some "1".toList, some "3 ".toList]), ("q".toList, [some "2".toList])] := by decide

/-- 01:30 at UTC+03:00 on 1 January is 22:30 GMT on 31 December -/
example : httpDate ⟨⟨2013, 1, 1⟩, ⟨1, 30, 0, 0⟩, some 180⟩ = "Mon, 31 Dec 2012 22:30:00 GMT".toList := by decide +kernel
example : httpDate ⟨⟨2013, 1, 1⟩, ⟨0, 0, 0, 0⟩, none⟩ = "Tue, 01 Jan 2013 00:00:00 GMT".toList := by decide +kernel

end SpyneModel.Props.C03
