/-
  C03 — HttpRpc flat key/value fidelity (property theorems; work in progress)
-/
import SpyneModel.Flat
import SpyneModel.FlatQs
import SpyneModel.Generated.Facts03
namespace SpyneModel.Props.C03
open SpyneModel SpyneModel.Flat SpyneModel.Generated

theorem facts_good : facts03.keyOrder = .natural ∧ facts03.tagScope = .perBranch ∧ facts03.freqScope = .perMember := by
  decide

end SpyneModel.Props.C03
