/-
  C09 — faults arrive intact, are classified correctly and never leak internals.
  Property theorems only; every theorem is about the model instantiated with the facts
  regenerated from /repo (`Generated.facts09`), side conditions discharged by `decide`.

  Reading guide.  `FaultV` = (code, message, actor, detail, lang) of the raised fault, `Cls` = what
  `isinstance` says about its class (built-in or generated subclass), `Proto` = the output protocol,
  `encodeFault` = the protocol's serialiser on `ctx.out_error`, `decodeFault` = the reference
  decoder of that wire format, `wsgi` = WsgiApplication.handle_rpc from the call of the user code
  to `start_response`, `client11`/`client12` = what the spyne SOAP clients put into `ctx.in_error`.
-/
import Proofs.Faults
import SpyneModel.Generated.Facts09
namespace SpyneModel.Props.C09
open SpyneModel SpyneModel.Faults SpyneModel.Generated

/-! ### fault codes with arbitrary dotted sub-codes -/

/-- splitting any code at its dots and joining the pieces again loses nothing
    (what `gen_fault_codes` / `generate_faultcode` rely on) -/
theorem code_join_split (code : Text) : joinWith '.' (splitOn '.' code) = code :=
  joinWith_splitOn '.' code

/-- a code built from any non-empty list of dot-free segments is split into exactly these -/
theorem code_split_join (segs : List Text) (hne : segs ≠ []) (hfree : ∀ s ∈ segs, '.' ∉ s) :
    splitOn '.' (joinWith '.' segs) = segs :=
  splitOn_joinWith '.' segs hne hfree

example : splitOn '.' (T "Client.Foo.Bar") = [T "Client", T "Foo", T "Bar"] := by decide

/-! ### HTTP status (fault_to_http_response_code as chosen by handle_error) -/

/-- 413 / 404 / 405 / 401 for the dedicated error classes and all their subclasses, whatever the code -/
theorem status_dedicated (p : Proto) (hp : p.isSoap = false) (c : Cls) (code : Text) :
    (c.tooLong = true → statusOf facts09 p c code = 413) ∧
    (c.tooLong = false → c.notFound = true → statusOf facts09 p c code = 404) ∧
    (c.tooLong = false → c.notFound = false → c.notAllowed = true → statusOf facts09 p c code = 405) ∧
    (c.tooLong = false → c.notFound = false → c.notAllowed = false → c.invalidCred = true →
      statusOf facts09 p c code = 401) := by
  simp only [statusOf, hp, baseStatus_doc facts09 (by decide)]
  rcases c with ⟨a, b, c, d⟩
  refine ⟨?_, ?_, ?_, ?_⟩ <;> intros <;> simp_all

/-- any other fault class: 400 exactly for the client codes (`Client`, `Client.<anything>`) … -/
theorem status_client_iff (p : Proto) (hp : p.isSoap = false) (code : Text) :
    statusOf facts09 p Cls.plain code = 400 ↔ IsClient code := by
  have h : facts09.clientTest = .eqOrDotPrefix := by decide
  simp only [statusOf, hp, baseStatus_doc facts09 (by decide), Cls.plain, h]
  rw [← isClientCode_iff]
  cases isClientCode .eqOrDotPrefix code <;> simp [facts09]

/-- … and 500 for every other code (`Server…`, `Clientx`, `client.x`, anything) -/
theorem status_otherwise_500 (p : Proto) (hp : p.isSoap = false) (code : Text) (h : ¬ IsClient code) :
    statusOf facts09 p Cls.plain code = 500 := by
  have hc : facts09.clientTest = .eqOrDotPrefix := by decide
  rw [← isClientCode_iff] at h
  simp only [statusOf, hp, baseStatus_doc facts09 (by decide), Cls.plain, hc]
  simp [h, facts09]

/-- always 500 for SOAP, for every class and code -/
theorem status_soap_500 (p : Proto) (hp : p.isSoap = true) (c : Cls) (code : Text) :
    statusOf facts09 p c code = 500 := by
  simp [statusOf, hp, facts09]

example : IsClient (T "Client.Foo.Bar") := Or.inr ⟨T "Foo.Bar", by decide⟩
example : ¬ IsClient (T "Clientx") := by
  rw [← isClientCode_iff]; decide

/-! ### nested detail dicts -/

/-- XML reading of a written detail dict, for every nesting of dicts and lists: the ordered (key, value) pairs
    up to what XML cannot distinguish — `normKvs`: an empty string / dict / list and None are one empty
    element; a one-item list is its item; a list of n items is n entries with the same key; a number or boolean
    (0, 0.0 and False included: only None is written as an empty element) is its `str()` text -/
theorem detail_xml_roundtrip (kvs : List (Text × Detail)) : kidsToKvs (kvsToXml facts09.emptyTest kvs) = normKvs kvs := by
  have h : facts09.emptyTest = .isNone := by decide
  rw [h]; exact kidsToKvs_kvsToXml kvs

/-- `normKvs` is a normal form: reading what was written from a reading gives the same reading -/
theorem detail_xml_normal_form (kvs : List (Text × Detail)) : normKvs (normKvs kvs) = normKvs kvs :=
  normKvs_idem kvs

/-- … and exactly equal when no list, empty string or empty dict occurs -/
theorem detail_xml_exact (kvs : List (Text × Detail)) (h : kvsSafe kvs = true) :
    kidsToKvs (kvsToXml facts09.emptyTest kvs) = kvs := by
  rw [detail_xml_roundtrip, normKvs_of_safe kvs h]

example : normKvs [(T "zero", .scalar (T "0") true), (T "no", .scalar (T "False") true), (T "n", .null)] =
    [(T "zero", .leaf (T "0")), (T "no", .leaf (T "False")), (T "n", .null)] := by
  simp [normKvs, normEntry]

/-- dict documents carry every nested detail (dicts, lists, numbers, booleans) exactly -/
theorem detail_doc_roundtrip (d : Detail) : docToDetail (detailToDoc d) = d :=
  docToDetail_detailToDoc d

example : kvsSafe [(T "a", .leaf (T "b")), (T "c", .node [(T "d", .null)])] = true := by decide
example : normKvs [(T "k", .list [.leaf (T "x"), .node [(T "a", .leaf (T "b"))]]), (T "e", .list [])] =
    [(T "k", .leaf (T "x")), (T "k", .node [(T "a", .leaf (T "b"))]), (T "e", .null)] := by
  simp [normKvs, normEntry, normItems, normItem]

/-! ### the fault on the wire, read by the reference decoder -/

/-- XmlDocument: code, message, actor and detail of every fault — also of a generated subclass with declared
    members, whose extra child elements (any number, any names but the unqualified `detail`) do not disturb
    the standard ones -/
theorem fault_roundtrip_xml (f : FaultV) (hm : ∀ m ∈ f.members, m.1 ≠ T "detail") :
    (encodeFault facts09 .xml f).bind (decodeFault .xml) =
      some { f with str := xmlText f.str, actor := xmlText f.actor, detail := normTop11 f.detail, lang := T "en",
                    members := [] } := by
  have hx : facts09.xmlSanitise = true := by decide
  simp [encodeFault, decodeFault, xmlToFault11_faultToXml11 facts09 (by decide) (by decide) f hm, xmlTextF, hx]

/-- the message / actor the XML protocols write is always text XML can carry (so the fault can always be sent), and it
    is the raised text itself whenever that text is XML-representable; every other character (controls, NUL, U+FFFE,
    U+FFFF; lone surrogates are outside Lean's `Char` and covered by the measured fact + T3) becomes U+FFFD -/
theorem fault_text_always_carriable (t : Text) :
    (xmlText t).all isXmlChar = true ∧ (t.all isXmlChar = true → xmlText t = t) :=
  ⟨xmlText_valid t, xmlText_of_valid t⟩

/-- SOAP 1.1: any code (the `faultcode` QName is read by its local part), any message, any detail -/
theorem fault_roundtrip_soap11 (f : FaultV) (hm : ∀ m ∈ f.members, m.1 ≠ T "detail") :
    (encodeFault facts09 .soap11 f).bind (decodeFault .soap11) =
      some { f with str := xmlText f.str, actor := xmlText f.actor, detail := normTop11 f.detail, lang := T "en",
                    members := [] } := by
  have hx : facts09.xmlSanitise = true := by decide
  simp [encodeFault, decodeFault, unwrapEnvelope_envelope, xmlToFault11_faultToXml11 facts09 (by decide) (by decide) f hm,
    xmlTextF, hx]

/-- SOAP 1.2: first segment Client or Server, arbitrary dotted sub-codes, any message, any detail, the language -/
theorem fault_roundtrip_soap12 (f : FaultV) (first : Text) (rest : List Text)
    (hs : splitOn '.' f.code = first :: rest) (hf : first = T "Client" ∨ first = T "Server")
    (hm : ∀ m ∈ f.members, m.1 ≠ tDetail12) :
    (encodeFault facts09 .soap12 f).bind (decodeFault .soap12) =
      some { f with str := xmlText f.str, actor := xmlText f.actor, detail := f.detail.map normKvs, members := [] } := by
  have hxs : facts09.xmlSanitise = true := by decide
  obtain ⟨x, hx, hd⟩ := xmlToFault12_faultToXml12 facts09 (by decide) (by decide) (by decide) f first rest hs hf hm
  simp [encodeFault, decodeFault, hx, unwrapEnvelope_envelope, hd, xmlTextF, hxs]

/-- JSON / YAML / MessagePack documents, dict and list form: everything, exactly -/
theorem fault_roundtrip_dict (asList : Bool) (f : FaultV) :
    (encodeFault facts09 (.dict asList) f).bind (decodeFault (.dict asList)) =
      some { f with lang := T "en", members := [] } := by
  cases asList <;> simp [encodeFault, decodeFault, docToFault_faultToDict, docToFault_faultToList]

/-- MessagePackRpc error frame -/
theorem fault_roundtrip_msgpackrpc (f : FaultV) :
    (encodeFault facts09 .msgpackRpc f).bind (decodeFault .msgpackRpc) =
      some { f with lang := T "en", members := [] } := by
  simp [encodeFault, decodeFault, rpcFrame, docToFault_faultToDict]

/-- HttpRpc (`code \n\n message` as text/plain): code and message.
    FULL STATEMENT (not provable, known finding `httprpc-detail-dropped`): … = some { f with lang := "en" },
    i.e. including actor and detail — this wire format has no place for them. -/
theorem fault_roundtrip_httprpc_partial (f : FaultV) (hc : '\n' ∉ f.code) :
    (encodeFault facts09 .httpRpc f).bind (decodeFault .httpRpc) =
      some { f with actor := [], detail := none, lang := T "en", members := [] } := by
  simp [encodeFault, decodeFault, httpText, splitBlank_httpText f.code f.str hc]

example : splitOn '.' (T "Client.a.b") = T "Client" :: [T "a", T "b"] := by decide

/-! ### the constructors of the built-in error classes -/

/-- A generated subclass of a built-in error class that overrides CODE with a more specific sub-code is raised
    with that code (and then delivered intact and classified by its class / prefix by the theorems above and below).
    FULL STATEMENT (fails on the tree until `InvalidInputError.__init__` stops passing the literal
    'Client.InvalidInput'; known finding `ctor:code-literal:InvalidInputError`): without `h1`, `h2`. -/
theorem ctor_code_is_declared_partial (b : Builtin) (c : Text) (h1 : b ≠ .invalidInput) (h2 : b ≠ .missingField) :
    ctorCode facts09 b (some c) = c := by
  have h : b ∈ facts09.ctorUsesCode := by cases b <;> first | contradiction | decide
  simp [ctorCode, h]

/-- without an override every built-in class is raised with its documented code -/
theorem ctor_code_default (b : Builtin) : ctorCode facts09 b none = b.baseCode := rfl

/-! ### the funnel -/

/-- a raised Fault becomes `ctx.out_error` unchanged (same object: class, code, message, detail)
    and `ctx.out_object` is never assigned -/
theorem funnel_fault_intact (c : Cls) (f : FaultV) :
    process facts09 (.plain (.raises (.fault c f))) = some ⟨.unset, some (c, f)⟩ := rfl

/-- once `ctx.out_error` is set, what is serialised does not depend on `ctx.out_object`,
    and it is never a response that carries a return value -/
theorem no_return_on_fault (p : Proto) (o o' : OutObj) (e : Cls × FaultV) :
    serialize facts09 p ⟨o, some e⟩ = serialize facts09 p ⟨o', some e⟩ ∧
    ∀ v, serialize facts09 p ⟨o, some e⟩ ≠ some (.ret v) := by
  refine ⟨rfl, ?_⟩
  intro v
  simp only [serialize]
  rcases p with _ | _ | _ | b | _ | _
  · simp [encodeFault]
  · simp [encodeFault]
  · simp only [encodeFault]; split <;> simp
  · cases b <;> simp [encodeFault]
  · simp [encodeFault]
  · simp [encodeFault]

/-- user code raises a Fault: the response is that fault's encoding with the documented status -/
theorem fault_response (p : Proto) (c : Cls) (f : FaultV) (w : Wire) (hw : encodeFault facts09 p f = some w) :
    wsgi facts09 p none (.plain (.raises (.fault c f))) = .response (statusOf facts09 p c f.code) w := by
  simp [wsgi, wsgiOn, process, afterRaise, funnel, handleError, hw]

/-- end to end: whatever the reference decoder reads from the encoding of the raised fault (the `fault_roundtrip_*`
    theorems say what that is under each protocol) is what it reads from the HTTP response, sent with the
    documented status -/
theorem fault_arrives (p : Proto) (c : Cls) (f g : FaultV)
    (h : (encodeFault facts09 p f).bind (decodeFault p) = some g) :
    ∃ w, wsgi facts09 p none (.plain (.raises (.fault c f))) = .response (statusOf facts09 p c f.code) w ∧
      decodeFault p w = some g := by
  cases hw : encodeFault facts09 p f with
  | none => simp [hw] at h
  | some w => exact ⟨w, fault_response p c f w hw, by simpa [hw] using h⟩

example (c : Cls) (f : FaultV) (hm : f.members = [(qn (T "tns") (T "extra"), T "x")]) :
    ∃ w, wsgi facts09 .soap11 none (.plain (.raises (.fault c f))) = .response 500 w ∧
      decodeFault .soap11 w = some { f with str := xmlText f.str, actor := xmlText f.actor, detail := normTop11 f.detail,
                                            lang := T "en", members := [] } := by
  have := fault_arrives .soap11 c f _ (fault_roundtrip_soap11 f (by rw [hm]; decide))
  rwa [status_soap_500 .soap11 rfl] at this

/-- a status that was already chosen when the fault is raised (by the in protocol, e.g. Soap11's 405 for a
    request that is not a POST, or by the user code) is left alone by the error path -/
theorem status_preset_respected (p : Proto) (s : Nat) (c : Cls) (f : FaultV) (w : Wire)
    (hw : encodeFault facts09 p f = some w) :
    wsgi facts09 p (some s) (.plain (.raises (.fault c f))) = .response s w := by
  have h : facts09.errorPathKeepsStatus = true := by decide
  simp [wsgi, wsgiOn, process, afterRaise, funnel, handleError, hw, h]

/-- the same when the fault is raised by a generator method — before its first `yield` or later,
    while the response is being produced: nothing of what it yielded is sent -/
theorem fault_response_generator (p : Proto) (c : Cls) (f : FaultV) (w : Wire)
    (hw : encodeFault facts09 p f = some w) (v : Text) (later : Option Raised) :
    wsgi facts09 p none (.gen (.raises (.fault c f)) later) = .response (statusOf facts09 p c f.code) w ∧
    wsgi facts09 p none (.gen (.value v) (some (.fault c f))) = .response (statusOf facts09 p c f.code) w := by
  have h1 : facts09.genFirstGuarded = true := by decide
  have h2 : facts09.serErr = .funnelled := by decide
  simp [wsgi, wsgiOn, process, afterRaise, funnel, handleError, serializeFailed, hw, h1, h2]

/-! ### every raise site: event listeners are user code too -/

/-- every listener call of `process_request` is inside its `try` block -/
theorem listeners_in_try (site : Site) (level : Level) : hookCovered facts09 site level = true := by
  cases site <;> cases level <;> decide

/-- a Fault raised by a `method_call` listener (the documented authentication hook) or by a
    `method_return_object` listener, registered with the application or with the service, becomes
    `ctx.out_error` unchanged; after a `method_return_object` listener `ctx.out_object` already holds the return
    value (which `no_return_on_fault` shows is not sent) -/
theorem funnel_listener_fault_intact (level : Level) (c : Cls) (f : FaultV) (body : Step) (v : Text) :
    process facts09 (.hook .methodCall level (.fault c f) body) = some ⟨.unset, some (c, f)⟩ ∧
    process facts09 (.hook .returnObject level (.fault c f) (.value v)) = some ⟨.value v, some (c, f)⟩ := by
  have h1 := listeners_in_try .methodCall level
  have h2 := listeners_in_try .returnObject level
  simp [process, h1, h2, afterRaise, funnel]

/-- … and the response is that fault's encoding with the documented status (401 for
    InvalidCredentialsError etc. by `status_dedicated`), never the return value -/
theorem fault_response_listener (site : Site) (level : Level) (p : Proto) (c : Cls) (f : FaultV) (w : Wire)
    (hw : encodeFault facts09 p f = some w) (v : Text) :
    wsgi facts09 p none (.hook site level (.fault c f) (.value v)) = .response (statusOf facts09 p c f.code) w := by
  have h := listeners_in_try site level
  cases site <;> simp [wsgi, wsgiOn, process, h, afterRaise, funnel, handleError, hw]

/-- a non-Fault exception raised by a listener is answered with the generic fault, status 500 -/
theorem other_from_listener_is_internal_error (site : Site) (level : Level) (p : Proto) (e : Exc) (v : Text) :
    ∃ w, encodeFault facts09 p internalError = some w ∧
      wsgi facts09 p none (.hook site level (.other e) (.value v)) = .response 500 w := by
  have h := listeners_in_try site level
  have h3 : facts09.faultString = .constant (T "Internal Error") := by decide
  have h4 : facts09.genericCode = T "Server" := by decide
  have hg : genericFault facts09 e = (Cls.plain, internalError) := by
    simp [genericFault, faultString, h3, h4, internalError]
  have hst : statusOf facts09 p Cls.plain (T "Server") = 500 := by
    cases hp : p.isSoap
    · exact status_otherwise_500 p hp _ (by rw [← isClientCode_iff]; decide)
    · exact status_soap_500 p hp _ _
  have henc : ∃ w, encodeFault facts09 p internalError = some w := by
    rcases p with _ | _ | _ | b | _ | _
    case dict => cases b <;> exact ⟨_, rfl⟩
    all_goals exact ⟨_, rfl⟩
  obtain ⟨w, hw⟩ := henc
  have hcode : internalError.code = T "Server" := rfl
  refine ⟨w, hw, ?_⟩
  cases site <;> simp [wsgi, wsgiOn, process, h, afterRaise, funnel, handleError, hg, hw, hcode, hst]

/-! ### per-request output protocol: the status is the one documented for the protocol that WRITES the fault -/

/-- User code (function body or `method_call` listener) that replaces `ctx.out_protocol` before it raises or
    returns gets, for every program and every pre-set status, exactly the response of an application configured
    with that protocol — body and status. Every theorem of this file about `wsgi … p …` therefore holds with
    `p` = the per-request protocol: 400/413/404/405/401 when a non-SOAP protocol writes the fault although the
    application is configured with SOAP, always 500 when SOAP writes it although the application is not. -/
theorem swapped_protocol_as_if_configured (app req : Proto) (preset : Option Nat) (u : UserCode) :
    wsgiSwap facts09 app (some req) preset u = wsgi facts09 req preset u := by
  have h : facts09.statusAsker = .requestProtocol := by decide
  simp [wsgiSwap, wsgi, statusProto, h]

/-- spelled out for a raised Fault: written by `req`, status `statusOf req` -/
theorem fault_response_swapped (app req : Proto) (c : Cls) (f : FaultV) (w : Wire)
    (hw : encodeFault facts09 req f = some w) :
    wsgiSwap facts09 app (some req) none (.plain (.raises (.fault c f))) =
      .response (statusOf facts09 req c f.code) w := by
  rw [swapped_protocol_as_if_configured]; exact fault_response req c f w hw

example (c : Cls) (f : FaultV) (w : Wire) (hw : encodeFault facts09 (.dict false) f = some w)
    (hc : c = Cls.plain) (hf : IsClient f.code) :
    wsgiSwap facts09 .soap11 (some (.dict false)) none (.plain (.raises (.fault c f))) = .response 400 w := by
  rw [fault_response_swapped _ _ c f w hw, hc, (status_client_iff (.dict false) rfl f.code).2 hf]

/-- without a replacement nothing changes -/
theorem no_swap (app : Proto) (preset : Option Nat) (u : UserCode) :
    wsgiSwap facts09 app none preset u = wsgi facts09 app preset u := by
  cases h : facts09.statusAsker <;> simp [wsgiSwap, wsgi, statusProto, h]

/-! ### auxiliary methods -/

/-- Whatever the auxiliary methods bound to the called method do — return, raise a Fault or any other exception
    (handled inside their own context), or fail in a way that propagates out of their processing — the response to
    the primary call is the one without them: a fault stays the fault, nothing of theirs is sent. -/
theorem aux_does_not_interfere (app : Proto) (req : Option Proto) (preset : Option Nat) (u : UserCode)
    (aux : List AuxOutcome) :
    wsgiAux facts09 app req preset u aux = wsgiSwap facts09 app req preset u := by
  have h : facts09.auxGuarded = true := by decide
  simp only [wsgiAux, h]
  cases wsgiSwap facts09 app req preset u <;> simp

/-! ### non-Fault exceptions -/

/-- non-interference: for every program (every raise site: function body, generator body, listeners), output protocol and pre-set status the whole response
    (status and body) is the same whatever type name, text and traceback the non-Fault exceptions
    raised in it carry — nothing of them can appear in it -/
theorem no_leak (p : Proto) (preset : Option Nat) (u : UserCode) :
    wsgi facts09 p preset u.erase = wsgi facts09 p preset u :=
  wsgi_erase facts09 (T "Internal Error") (by decide) p preset u

/-- … and that response is the generic fault, status 500, under every protocol — raised by a plain
    method, by a generator before or after its first `yield`, or by a failing redirect -/
theorem other_is_internal_error (p : Proto) (e : Exc) (v : Text) (later : Option Raised) :
    ∃ w, encodeFault facts09 p internalError = some w ∧
      wsgi facts09 p none (.plain (.raises (.other e))) = .response 500 w ∧
      wsgi facts09 p none (.plain (.raises (.redirect (some e)))) = .response 500 w ∧
      wsgi facts09 p none (.gen (.raises (.other e)) later) = .response 500 w ∧
      wsgi facts09 p none (.gen (.value v) (some (.other e))) = .response 500 w := by
  have h1 : facts09.genFirstGuarded = true := by decide
  have h2 : facts09.serErr = .funnelled := by decide
  have h3 : facts09.faultString = .constant (T "Internal Error") := by decide
  have h4 : facts09.genericCode = T "Server" := by decide
  have hg : genericFault facts09 e = (Cls.plain, internalError) := by
    simp [genericFault, faultString, h3, h4, internalError]
  have hst : statusOf facts09 p Cls.plain (T "Server") = 500 := by
    cases hp : p.isSoap
    · exact status_otherwise_500 p hp _ (by rw [← isClientCode_iff]; decide)
    · exact status_soap_500 p hp _ _
  have henc : ∃ w, encodeFault facts09 p internalError = some w := by
    rcases p with _ | _ | _ | b | _ | _
    case dict => cases b <;> exact ⟨_, rfl⟩
    all_goals exact ⟨_, rfl⟩
  obtain ⟨w, hw⟩ := henc
  have hcode : internalError.code = T "Server" := rfl
  refine ⟨w, hw, ?_, ?_, ?_, ?_⟩ <;>
    simp [wsgi, wsgiOn, process, afterRaise, funnel, handleError, serializeFailed, hg, hw, h1, h2, hcode, hst]

/-- the reference decoder reads `Server` / `Internal Error` from it, with no detail -/
theorem internal_error_decodes (p : Proto) :
    (encodeFault facts09 p internalError).bind (decodeFault p) = some internalError := by
  rcases p with _ | _ | _ | b | _ | _
  · rw [fault_roundtrip_xml _ (by simp [internalError])]; rfl
  · rw [fault_roundtrip_soap11 _ (by simp [internalError])]; rfl
  · rw [fault_roundtrip_soap12 internalError (T "Server") [] (by decide) (Or.inr rfl) (by simp [internalError])]; rfl
  · rw [fault_roundtrip_dict]; rfl
  · rw [fault_roundtrip_msgpackrpc]; rfl
  · rw [fault_roundtrip_httprpc_partial internalError (by decide)]; rfl

/-! ### what the spyne SOAP clients hold in `ctx.in_error` -/

/-- SOAP 1.1 client: message and detail as sent; the code is the `faultcode` QName whose local part is the raised
    code (`hne`: a `Fault` never has an empty message — its constructor puts the type name there) -/
theorem client11_sees (f : FaultV) (hne : f.str ≠ []) (hm : ∀ m ∈ f.members, m.1 ≠ T "detail")
    (hv : f.str.all isXmlChar = true) :
    ∃ w cf, encodeFault facts09 .soap11 f = some w ∧ client11 w = some cf ∧
      localPart cf.code = f.code ∧ cf.str = f.str ∧ cf.detail = normTop11 f.detail := by
  refine ⟨_, _, rfl, client11_encode facts09 (by decide) f hm, ?_, ?_, rfl⟩
  · exact localPart_prefixed _ (by decide) _
  · have hx : facts09.xmlSanitise = true := by decide
    simp [ctorString, hne, xmlTextF, hx, xmlText_of_valid f.str hv]

/-- SOAP 1.2 client: the code read in spyne's vocabulary (Sender = Client, Receiver = Server) is the
    raised code, the detail is as sent, the message is as sent when it has no blank edges.
    FULL STATEMENT (not provable while the client strips the reason text, known finding
    `client12-reason-stripped`): `cf.str = f.str` without the hypothesis `hstr`. -/
theorem client12_sees_partial (f : FaultV) (first : Text) (rest : List Text)
    (hs : splitOn '.' f.code = first :: rest) (hf : first = T "Client" ∨ first = T "Server")
    (hne : f.str ≠ []) (hstr : strip f.str = f.str) (hm : ∀ m ∈ f.members, m.1 ≠ tDetail12)
    (hv : f.str.all isXmlChar = true) :
    ∃ w cf, encodeFault facts09 .soap12 f = some w ∧ client12 facts09 w = some cf ∧
      code12ToSpyne cf.code = f.code ∧ cf.str = f.str ∧ cf.detail = f.detail.map normKvs := by
  obtain ⟨x, hx, hc⟩ := client12_encode facts09 (by decide) (by decide) (by decide) f first rest hs hf hm
  refine ⟨.xml (envelope ns12 [x]), _, by simp [encodeFault, hx], hc, ?_, ?_, rfl⟩
  · exact code12ToSpyne_client _ (by decide) f.code first rest hs hf
  · have hx : facts09.xmlSanitise = true := by decide
    simp [hstr, ctorString, hne, xmlTextF, hx, xmlText_of_valid f.str hv]

example : strip (T "msg é") = T "msg é" := by decide
example : strip (T " sp ") = T "sp" := by decide

end SpyneModel.Props.C09
