/-
  C08, continued — Decimal, the XSD lexical spaces, Uuid, DateTime customisations, Double.
  Property theorems only (further obligations of C08); every theorem is about the model instantiated with
  the facts regenerated from /repo (`Generated.facts08`, `Generated.facts08x`).
-/
import Proofs.Prim2
import SpyneModel.Generated.Facts08
import SpyneModel.Generated.Facts08x
namespace SpyneModel.Props.C08more
open SpyneModel SpyneModel.Generated

/-! ### Decimal -/

/-- every finite `Decimal` (any sign — also of zero —, coefficient and exponent a `Decimal` can carry) whose
    text fits `max_str_len` is read back as exactly the same triple, hence the same number -/
theorem dec_roundtrip (d : Dec) (hrep : d.representable)
    (hlen : (decToText d).length ≤ facts08x.decMaxStrLen) :
    decFromText facts08x (decToText d) = .ok (.fin d) :=
  decFromText_decToText facts08x d hrep hlen

/-- whenever `str(Decimal)` needs no exponent, what is written is an xs:decimal literal -/
theorem dec_plain_in_lexical_space (d : Dec) (h1 : d.exp ≤ 0) (h2 : d.leftdigits > -6) :
    XsdLex.decimal (decToText d) = true :=
  xsdDecimal_decToText_plain d h1 h2

/-- KNOWN FINDING (D04, `lex:decimal:scientific`): outside that range `str(Decimal)` switches to scientific
    notation, which is not in the lexical space of xs:decimal — witness `Decimal('1E+10')`.
    The full statement `∀ d, XsdLex.decimal (decToText d)` is therefore false for the code as it is. -/
theorem dec_scientific_not_lexical :
    decToText ⟨false, 1, 10⟩ = "1E+10".toList ∧ XsdLex.decimal (decToText ⟨false, 1, 10⟩) = false ∧
    decToText ⟨false, 0, -7⟩ = "0E-7".toList ∧ XsdLex.decimal (decToText ⟨false, 0, -7⟩) = false := by
  decide +kernel

/-- every literal of xs:decimal within the length guard is read, and as the number it denotes
    (`num / 10^scale`, compared by cross-multiplication) -/
theorem dec_literal_read (s : Text) (h : XsdLex.decimal s = true) (hlen : s.length ≤ facts08x.decMaxStrLen) :
    ∃ d, decFromText facts08x s = .ok (.fin d) ∧
      sameValue d.num d.scale (XsdLex.valueOfDecimal s).1 (XsdLex.valueOfDecimal s).2 :=
  decFromText_xsdDecimal facts08x (by decide) s h hlen

/-- text that is not a decimal numeral is answered with a ValidationError, never with another exception -/
theorem dec_never_crashes (s : Text) (e : String) : decFromText facts08x s ≠ .crash e := by
  unfold decFromText
  intro h
  simp only [] at h
  repeat (split at h <;> try (simp at h; done))

example : Dec.representable ⟨true, 12345, -10⟩ := by unfold Dec.representable; decide +kernel
example : decToText ⟨true, 12345, -10⟩ = "-0.0000012345".toList := by decide +kernel
example : decFromText facts08x "-0.0000012345".toList = .ok (.fin ⟨true, 12345, -10⟩) := by decide +kernel
example : decFromText facts08x " +1_0.50e-3 ".toList = .ok (.fin ⟨false, 1050, -5⟩) := by decide +kernel
example : XsdLex.decimal "+.5".toList = true ∧ XsdLex.valueOfDecimal "-01.50".toList = (-150, 2) := by decide +kernel

/-! ### the XSD lexical spaces of integer, boolean, date, time, dateTime, duration -/

theorem int_in_lexical_space (i : Int) : XsdLex.integer (intToText i) = true := xsdInteger_intToText i

/-- every xs:integer literal (optional sign, leading zeros allowed) within the length guard of the type is
    read as the number it denotes -/
theorem int_literal_read (k : IntKind) (s : Text) (h : XsdLex.integer s = true)
    (hlen : s.length ≤ facts08.intMaxStrLen k) : intFromText facts08 k s = .ok (XsdLex.valueOfInteger s) :=
  intFromText_xsdInteger facts08 k s h hlen

theorem bool_in_lexical_space (b : Bool) : XsdLex.boolean (boolToText b) = true := by cases b <;> decide

theorem bool_literal_read (s : Text) (h : XsdLex.boolean s = true) :
    boolFromText facts08 s = .ok (XsdLex.valueOfBoolean s) := by
  simp only [XsdLex.boolean, Bool.or_eq_true, decide_eq_true_eq] at h
  rcases h with ((h | h) | h) | h <;> subst h <;> decide

theorem date_in_lexical_space (x : Date) (h : x.valid = true) : XsdLex.date (isoDate x) = true := xsdDate_isoDate x h

theorem time_in_lexical_space (t : Time) (h : t.valid = true) : XsdLex.time (isoTime t) = true := xsdTime_isoTime t h

/-- what is written for any valid datetime (year 0001..9999, naive or with an offset within ±14:00, which is all
    XSD allows) is an xs:dateTime literal -/
theorem datetime_in_lexical_space (x : DateTime) (h : x.valid = true)
    (htz : ∀ m, x.tz = some m → -840 ≤ m ∧ m ≤ 840) : XsdLex.dateTime (isoDateTime x) = true := by
  simp [XsdLex.dateTime, xsdDateTimeLit_isoDateTime x h htz]

/-- every xs:dateTime literal that denotes a value a `datetime` can hold (year 0001..9999, hour < 24, a whole
    number of microseconds; `Z`, any offset up to ±14:00 or none; fraction of any length) is read as that value.
    The `24:00:00` spelling is excluded: see KNOWN FINDING `lex-read:dateTime:24:00:00`. -/
theorem datetime_literal_read (s : Text) (l : XsdLex.DtLit) (x : DateTime)
    (h : XsdLex.dateTimeLit s = some l) (hv : l.value? = some x) : dateTimeFromText facts08 s = .ok x :=
  dateTimeFromText_xsd_value facts08 (by decide) (by decide) s l x h hv

/-- …and with a fraction that is not a whole number of microseconds it is read with the fraction rounded
    (half-even on the decimal digits, capped at 999999 µs: `fracToMicros`) -/
theorem datetime_literal_read_rounded (s : Text) (l : XsdLex.DtLit) (h : XsdLex.dateTimeLit s = some l)
    (hneg : l.neg = false) (hy : l.year.length = 4) (h24 : l.hour < 24) :
    dateTimeFromText facts08 s =
      .ok ⟨⟨valNat l.year, l.month, l.day⟩, ⟨l.hour, l.minute, l.second, fracToMicros l.frac⟩, l.tz⟩ :=
  dateTimeFromText_xsd facts08 (by decide) (by decide) s l h hneg hy h24

theorem duration_in_lexical_space (us : Int) : XsdLex.duration (durToText facts08 us) = true :=
  xsdDuration_durToText facts08 (by decide) us

/-- every dayTimeDuration literal (no years/months, at most six fraction digits) that a `timedelta` can hold is
    read as the duration it denotes, to the microsecond -/
theorem duration_literal_read (s : Text) (l : DurLit) (h : XsdLex.durationLit s = some l)
    (hy : l.years = 0) (hm : l.months = 0) (hf : l.secFrac.length ≤ 6)
    (hmax : XsdLex.dayTimeMicros l ≤ maxDurUs)
    (hmin : l.neg = true → XsdLex.dayTimeMicros l ≤ 999999999 * usPerDay) :
    durFromText facts08 s =
      .ok (if l.neg then -(XsdLex.dayTimeMicros l : Int) else (XsdLex.dayTimeMicros l : Int)) := by
  have e := micros_dayTime l hy hm hf
  rw [← e] at hmax hmin ⊢
  exact durFromText_xsd facts08 (by decide) s l h hmax hmin

example : XsdLex.dateTimeLit "2020-02-29T23:59:59.5+14:00".toList =
    some ⟨false, "2020".toList, 2, 29, 23, 59, 59, "5".toList, some 840⟩ := by decide +kernel
example : (XsdLex.DtLit.mk false "2020".toList 2 29 23 59 59 "5".toList (some 840)).value? =
    some ⟨⟨2020, 2, 29⟩, ⟨23, 59, 59, 500000⟩, some 840⟩ := by decide +kernel
example : XsdLex.dateTime "2021-02-29T00:00:00".toList = false ∧ XsdLex.dateTime "2020-01-01T24:00:00".toList = true ∧
    XsdLex.dateTime "2020-01-01T00:00:00+14:01".toList = false := by decide +kernel
example : XsdLex.durationLit "-P1DT2H3M4.5S".toList =
    some { neg := true, days := 1, hours := 2, minutes := 3, secInt := 4, secFrac := "5".toList } := by decide +kernel
example : XsdLex.duration "P1DT".toList = false ∧ XsdLex.duration "P".toList = false ∧ XsdLex.duration "PT1.S".toList = false := by
  decide +kernel
example : XsdLex.integer "+007".toList = true ∧ XsdLex.valueOfInteger "-007".toList = -7 := by decide +kernel

/-! ### Uuid -/

/-- every UUID (any 16 bytes) survives its `8-4-4-4-12` text form -/
theorem uuid_roundtrip (bs : List Nat) (hl : bs.length = 16) (h : bytesOk bs) :
    uuidFromText (uuidToText bs) = .ok bs :=
  uuidFromText_uuidToText bs hl h

/-- …and that text matches the `pattern` facet the schema advertises for Uuid -/
theorem uuid_in_lexical_space (bs : List Nat) (hl : bs.length = 16) (h : bytesOk bs) :
    uuidPattern (uuidToText bs) = true :=
  uuidPattern_uuidToText bs hl h

/-- the other spellings `uuid.UUID` accepts denote the same UUID: `urn:uuid:` prefix, braces, bare 32 digits -/
theorem uuid_other_spellings (bs : List Nat) (hl : bs.length = 16) (h : bytesOk bs) :
    uuidFromText ("urn:uuid:".toList ++ uuidToText bs) = .ok bs ∧
    uuidFromText ('{' :: (uuidToText bs ++ ['}'])) = .ok bs ∧
    uuidFromText (hexenc bs) = .ok bs :=
  ⟨uuidFromText_urn bs hl h, uuidFromText_braces bs hl h, uuidFromText_hex bs hl h⟩

theorem uuid_never_crashes (s : Text) (e : String) : uuidFromText s ≠ .crash e := by
  unfold uuidFromText
  intro h
  simp only [] at h
  repeat (split at h <;> try (simp at h; done))

example : uuidToText [18, 52, 86, 120, 18, 52, 86, 120, 18, 52, 86, 120, 18, 52, 86, 255] =
    "12345678-1234-5678-1234-5678123456ff".toList := by decide
example : uuidFromText "urn:uuid:{12345678-1234-5678-1234-5678123456FF}".toList =
    .ok [18, 52, 86, 120, 18, 52, 86, 120, 18, 52, 86, 120, 18, 52, 86, 255] := by decide +kernel
example : uuidFromText "12345678-1234-5678-1234-5678123456f".toList = .fault := by decide +kernel

/-! ### DateTime customisations (fixed-offset zones) -/

/-- `astimezone` keeps the instant (UTC microsecond count), installs the target offset and yields a valid
    datetime whenever it does not overflow -/
theorem astimezone_keeps_instant (same : Bool) (x y : DateTime) (o : Int) (hx : x.valid = true)
    (ho1 : -1440 < o) (ho2 : o < 1440) (hsame : same = true → x.tz = some o)
    (h : astimezone same x o = .ok y) : instant y = instant x ∧ y.tz = some o ∧ y.valid = true :=
  astimezone_ok same x o y hx ho1 ho2 hsame h

/-- `DateTime(as_timezone=o)`: any aware value that can be written (its UTC wall clock and its wall clock in the
    target zone lie in years 1..9999) is read back as the same instant, carrying offset `o` -/
theorem as_timezone_roundtrip (same : Bool) (x : DateTime) (m o : Int) (text : Text)
    (hx : x.valid = true) (htz : x.tz = some m) (ho1 : -1440 < o) (ho2 : o < 1440) (hsame : same = true → m = o)
    (hutc : inYears (shiftWall x.date x.time (-m)).1 = true)
    (henc : dateTimeToTextC false (some o) same true x = .ok text) :
    ∃ y, dateTimeFromTextC facts08 facts08x (some o) text = .ok y ∧ y.tz = some o ∧ instant y = instant x :=
  astz_roundtrip facts08 facts08x (by decide) same x m o text hx htz ho1 ho2 hsame hutc henc

/-- reading under `as_timezone=o` (any protocol, SOAP included): an aware value is converted — equal instants — -/
theorem as_timezone_read (s : Text) (x' y : DateTime) (m o : Int)
    (hp : dateTimeFromText facts08 s = .ok x') (hv : x'.valid = true) (htz : x'.tz = some m)
    (ho1 : -1440 < o) (ho2 : o < 1440)
    (h : dateTimeFromTextC facts08 facts08x (some o) s = .ok y) :
    instant y = instant x' ∧ y.tz = some o ∧ y.valid = true :=
  astz_read facts08 facts08x s x' y m o hp hv htz ho1 ho2 h

/-- …and a naive one takes the zone with its wall clock unchanged -/
theorem as_timezone_read_naive (s : Text) (x' : DateTime) (o : Int)
    (hp : dateTimeFromText facts08 s = .ok x') (htz : x'.tz = none) :
    dateTimeFromTextC facts08 facts08x (some o) s = .ok { x' with tz := some o } :=
  astz_read_naive facts08 facts08x s x' o hp htz

/-- `DateTime(timezone=False)`: the offset is stripped on output, all wall-clock fields are read back -/
theorem no_timezone_roundtrip (same : Bool) (x : DateTime) (hx : x.valid = true) :
    dateTimeToTextC false none same false x = .ok (isoDateTime { x with tz := none }) ∧
    dateTimeFromTextC facts08 facts08x none (isoDateTime { x with tz := none }) = .ok { x with tz := none } :=
  notz_roundtrip facts08 facts08x (by decide) same x hx

example : dateTimeToTextC false (some 330) false true ⟨⟨2020, 1, 1⟩, ⟨0, 30, 0, 5⟩, some 60⟩ =
    .ok "2020-01-01T05:00:00.000005+05:30".toList := by decide +kernel
example : inYears (shiftWall ⟨2020, 1, 1⟩ ⟨0, 30, 0, 5⟩ (-60)).1 = true := by decide +kernel
example : astimezone false ⟨⟨1, 1, 1⟩, ⟨0, 0, 0, 0⟩, some 60⟩ 0 = .crash "OverflowError" := by decide +kernel

/-! ### `dt_format` / `date_format` over the directives `%Y %m %d %H %M %S` -/

/-- `DateTime(dt_format=fmt)` for every well-formed format that names all six fields: what `strftime` writes for
    any valid datetime is read back by `strptime` as the same wall clock to the second (microseconds and offset
    are not written by these directives).  Years below 1000 need the zero-padded `%Y` (`facts08x.oldYearPad`). -/
theorem dt_format_roundtrip (fmt : Fmt) (hwf : fmt.wf = true)
    (hall : fmt.hasAll [.Y, .m, .d, .H, .M, .S] = true) (x : DateTime) (hx : x.valid = true)
    (hpad : facts08x.oldYearPad = .zero ∨ 1000 ≤ x.date.y) :
    dateTimeFromTextFmt facts08x fmt none (renderFmt facts08x (fieldsOf x.date x.time) fmt) =
      .ok ⟨x.date, ⟨x.time.h, x.time.mi, x.time.s, 0⟩, none⟩ :=
  dateTimeFromTextFmt_render facts08x fmt hwf hall x hx hpad

/-- `DateTime(dt_format=fmt, as_timezone=o)`: an aware value is converted to the zone (same instant), written, and
    read back with the zone put on again — the same instant to the second.  Needs the `as_timezone` branch of
    `_datetime_from_unicode` to do what its documentation says (`facts08x.fmtAsTz = .replace`). -/
theorem dt_format_as_timezone_roundtrip (hF : facts08x.fmtAsTz = .replace) (fmt : Fmt) (hwf : fmt.wf = true)
    (hall : fmt.hasAll [.Y, .m, .d, .H, .M, .S] = true) (same : Bool) (x x1 : DateTime) (o : Int) (text : Text)
    (hx : x.valid = true) (ho1 : -1440 < o) (ho2 : o < 1440) (hsame : same = true → x.tz = some o)
    (hconv : astimezone same x o = .ok x1)
    (hpad : facts08x.oldYearPad = .zero ∨ 1000 ≤ x1.date.y) :
    dateTimeFromTextFmt facts08x fmt (some o) (renderFmt facts08x (fieldsOf x1.date x1.time) fmt) =
      .ok ⟨x1.date, ⟨x1.time.h, x1.time.mi, x1.time.s, 0⟩, some o⟩ ∧ instant x1 = instant x ∧ x1.tz = some o := by
  obtain ⟨hi, htz, hv⟩ := astimezone_ok same x o x1 hx ho1 ho2 hsame hconv
  exact ⟨dateTimeFromTextFmt_render_astz facts08x hF fmt hwf hall x1 o hv hpad, hi, htz⟩

/-- `Date(date_format=fmt)` for every well-formed format naming year, month and day -/
theorem date_format_roundtrip (fmt : Fmt) (hwf : fmt.wf = true) (hall : fmt.hasAll [.Y, .m, .d] = true)
    (x : Date) (hx : x.valid = true) (hpad : facts08x.oldYearPad = .zero ∨ 1000 ≤ x.y) :
    dateFromTextFmt facts08 fmt (dateToTextFmt facts08x false fmt x) = .ok x :=
  dateFromTextFmt_render facts08x facts08 fmt hwf hall x hx hpad

/-- Soap11/Soap12 read dates in ISO form only; provided they also write them so (`facts08x.soapDateIso`),
    a `date_format` does not get in the way -/
theorem date_format_soap_roundtrip (hS : facts08x.soapDateIso = true) (fmt : Fmt) (x : Date) (hx : x.valid = true) :
    dateFromText facts08 (dateToTextFmt facts08x true fmt x) = .ok x := by
  simp only [dateToTextFmt, hS, Bool.and_self, if_true]
  exact dateFromText_isoDate facts08 x hx

/-- text that does not match the format is never anything but an error of the documented kind -/
theorem dt_format_mismatch (fmt : Fmt) (asTz : Option Int) (s : Text) (h : strptimeFmt fmt s {} = none) :
    dateTimeFromTextFmt facts08x fmt asTz s = fmtError facts08x := by
  simp [dateTimeFromTextFmt, h]

/-- every textual `serialize_as` form of Uuid (`None`, `'hex'`, `'urn'`) survives -/
theorem uuid_serialize_as_roundtrip (form : UuidForm) (bs : List Nat) (hl : bs.length = 16) (h : bytesOk bs) :
    uuidFromText (uuidToTextAs form bs) = .ok bs :=
  uuidFromText_uuidToTextAs form bs hl h

example : Fmt.wf [.dir .d, .lit '.', .dir .m, .lit '.', .dir .Y, .lit ' ', .dir .H, .lit 'h', .dir .M, .lit ':', .dir .S] = true := by
  decide
example : renderFmt facts08x ⟨2020, 1, 2, 3, 4, 5⟩ [.dir .d, .lit '.', .dir .m, .lit '.', .dir .Y, .lit ' ', .dir .H, .lit 'h', .dir .M, .lit ':', .dir .S] =
    "02.01.2020 03h04:05".toList := by decide
example : strptimeFmt [.dir .d, .lit '.', .dir .m, .lit '.', .dir .Y] " 2.1.2020".toList {} = some ⟨2020, 1, 2, 0, 0, 0⟩ := by
  decide +kernel
example : strptimeFmt [.dir .Y, .lit '-', .dir .m] "2020-13".toList {} = none := by decide +kernel

/-! ### xs:base64Binary literals, white space included -/

/-- every literal of xs:base64Binary — with a single space after any character as the grammar allows, and, the
    whiteSpace facet being `collapse`, with runs of space / tab / CR / LF in those places and around — denotes a
    byte string, and is read as exactly that byte string (re-encoding it gives the literal without its white
    space).  Rests on `ByteArray.from_base64` skipping white space (`facts08x.b64IgnoresWhitespace`, by `decide`). -/
theorem base64_literal_read (s : Text) (h : XsdLex.base64Binary s = true) :
    ∃ bs, b64FromText facts08x s = some bs ∧ bytesOk bs ∧ b64enc false bs = dropXmlSpace s := by
  have hF : facts08x.b64IgnoresWhitespace = true := by decide
  obtain ⟨bs, hd, hok, he⟩ := b64_literal_denotes (dropXmlSpace s) h
  exact ⟨bs, by simp [b64FromText, hF, hd], hok, he⟩

/-- white space never changes what is read: two texts that differ only in white space are read alike -/
theorem base64_whitespace_irrelevant (s t : Text) (h : dropXmlSpace s = dropXmlSpace t) :
    b64FromText facts08x s = b64FromText facts08x t := by
  have hF : facts08x.b64IgnoresWhitespace = true := by decide
  simp [b64FromText, hF, h]

example : XsdLex.base64Binary "AAEC AwQF".toList = true ∧ XsdLex.base64Binary " A A E C\r\n\tAwQF\n".toList = true ∧
    XsdLex.base64Binary "AAEC AwQ".toList = false ∧ XsdLex.base64Binary "YR==".toList = false := by decide +kernel
example : b64FromText facts08x "AAEC\nAwQF".toList = some [0, 1, 2, 3, 4, 5] := by decide +kernel
example : XsdLex.hexBinary " 0aFF\n".toList = true ∧ XsdLex.hexBinary "0a FF".toList = false := by decide +kernel

/-! ### which encoding a ByteArray travels in -/

/-- `ByteArray(encoding=e)` under any protocol (XmlDocument/Soap suggest base64, HttpRpc urlsafe base64): the declared
    encoding is the one written, so the text is a literal of the advertised schema type (xs:hexBinary for hex,
    xs:base64Binary for base64) and the protocol reads its own output back.  Rests on `declaredBeatsSuggested`. -/
theorem bytearray_declared_encoding (e : BaEnc) (suggested protoDefault : Option BaEnc) (bs : List Nat) (h : bytesOk bs) :
    byteArrayToTextP facts08x (some e) suggested protoDefault bs = some (encodeWith e bs) ∧
    advertisedLex e (encodeWith e bs) = true ∧
    byteArrayFromTextP (some e) suggested (encodeWith e bs) = some bs :=
  byteArray_declared facts08x (by decide) e suggested protoDefault bs h

theorem bytearray_suggested_encoding (e : BaEnc) (protoDefault : Option BaEnc) (bs : List Nat) (h : bytesOk bs) :
    byteArrayToTextP facts08x none (some e) protoDefault bs = some (encodeWith e bs) ∧
    byteArrayFromTextP none (some e) (encodeWith e bs) = some bs :=
  byteArray_suggested facts08x e protoDefault bs h

example : byteArrayToTextP facts08x (some .hex) (some .base64) (some .base64) [251, 255] = some "fbff".toList := by decide
example : byteArrayToTextP facts08x none none none [1] = none := by decide

/-! ### Double: the wrapper around CPython's `repr(float)` / `float(str)` -/

/-- PARTIAL by design (DESIGN §4 C08, Float note a): CPython's shortest-repr and its parser are assumed, as
    hypotheses (not axioms) — `parseF (reprF x) = x` for every finite `x`, and `repr` of a finite float is a numeric
    xs:double literal; T2/T3 exercise both on generated floats by IEEE bits.  What is proved is the wrapper:
    NaN and the infinities are written `NaN` / `INF` / `-INF` and read back, and `float()`'s own special-value
    spellings can never capture what `repr` writes for a finite value. -/
theorem double_roundtrip_partial {α : Type} (reprF : α → Text) (parseF : Text → Option (Dbl α))
    (hbij : ∀ x, parseF (reprF x) = some (.fin x)) (hlex : ∀ x, XsdLex.doubleNumeric (reprF x) = true)
    (v : Dbl α) : doubleFromText parseF (doubleToText reprF v) = .ok v :=
  doubleFromText_doubleToText reprF parseF hbij (fun x => pyFloatSpecial_numeric (reprF x) (hlex x)) v

/-- no numeric xs:double literal is taken for a special value by `float()` -/
theorem double_numeric_not_special {α : Type} (parseF : Text → Option (Dbl α)) (s : Text)
    (h : XsdLex.doubleNumeric s = true) :
    (∀ v, parseF s = some v → doubleFromText parseF s = .ok v) ∧
    (parseF s = none → doubleFromText parseF s = .fault) := by
  unfold doubleFromText
  simp only [pyFloatSpecial_numeric s h]
  exact ⟨fun v hv => by rw [hv], fun hv => by rw [hv]⟩

/-- PARTIAL in the same sense: assuming `repr` of a finite float is a numeric xs:double literal, everything
    written for a Double is an xs:double literal -/
theorem double_in_lexical_space_partial {α : Type} (reprF : α → Text)
    (hlex : ∀ x, XsdLex.doubleNumeric (reprF x) = true) (v : Dbl α) :
    XsdLex.double (doubleToText reprF v) = true :=
  xsdDouble_doubleToText reprF hlex v

/-- the three special literals of xs:double are read as their values, whatever the numeric parser does -/
theorem double_special_literals {α : Type} (parseF : Text → Option (Dbl α)) :
    doubleFromText parseF "NaN".toList = .ok .nan ∧ doubleFromText parseF "INF".toList = .ok (.inf false) ∧
    doubleFromText parseF "-INF".toList = .ok (.inf true) := by
  refine ⟨?_, ?_, ?_⟩ <;> unfold doubleFromText
  · rw [pyFloatSpecial_NaN]
  · rw [pyFloatSpecial_INF]
  · rw [pyFloatSpecial_negINF]

-- the hypotheses are satisfiable: a toy `repr` (decimal digits of a natural number)
example : ∃ (reprF : Bool → Text) (parseF : Text → Option (Dbl Bool)),
    (∀ x, parseF (reprF x) = some (.fin x)) ∧ (∀ x, XsdLex.doubleNumeric (reprF x) = true) :=
  ⟨fun b => if b then "1.5e+300".toList else "-0.0".toList,
   fun s => if s = "1.5e+300".toList then some (.fin true) else if s = "-0.0".toList then some (.fin false) else none,
   fun x => by cases x <;> decide, fun x => by cases x <;> decide +kernel⟩
example : XsdLex.double "1.7976931348623157e+308".toList = true ∧ XsdLex.double "-0.0".toList = true ∧
    XsdLex.double "inf".toList = false ∧ XsdLex.double "1e".toList = false := by decide +kernel

end SpyneModel.Props.C08more
