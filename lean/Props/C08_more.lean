/-
  C08, continued — Decimal, the XSD lexical spaces, Uuid, DateTime customisations, Double.
  Property theorems only (further obligations of C08); every theorem is about the model instantiated with
  the facts regenerated from /repo (`Generated.facts08`, `Generated.facts08x`).
-/
import Proofs.Prim2
import SpyneModel.Generated.Facts08
import SpyneModel.Generated.Facts08x
namespace SpyneModel.Props.C08more
open SpyneModel SpyneModel.Generated

/-! ### Decimal -/

/-- every finite `Decimal` (any sign — also of zero —, coefficient and exponent a `Decimal` can carry) whose
    text fits `max_str_len` is read back as exactly the same triple, hence the same number -/
theorem dec_roundtrip (d : Dec) (hrep : d.representable)
    (hlen : (decToText d).length ≤ facts08x.decMaxStrLen) :
    decFromText facts08x (decToText d) = .ok (.fin d) :=
  decFromText_decToText facts08x d hrep hlen

/-- whenever `str(Decimal)` needs no exponent, what is written is an xs:decimal literal -/
theorem dec_plain_in_lexical_space (d : Dec) (h1 : d.exp ≤ 0) (h2 : d.leftdigits > -6) :
    XsdLex.decimal (decToText d) = true :=
  xsdDecimal_decToText_plain d h1 h2

/-- KNOWN FINDING (D04, `lex:decimal:scientific`): outside that range `str(Decimal)` switches to scientific
    notation, which is not in the lexical space of xs:decimal — witness `Decimal('1E+10')`.
    The full statement `∀ d, XsdLex.decimal (decToText d)` is therefore false for the code as it is. -/
theorem dec_scientific_not_lexical :
    decToText ⟨false, 1, 10⟩ = "1E+10".toList ∧ XsdLex.decimal (decToText ⟨false, 1, 10⟩) = false ∧
    decToText ⟨false, 0, -7⟩ = "0E-7".toList ∧ XsdLex.decimal (decToText ⟨false, 0, -7⟩) = false := by
  decide +kernel

/-- every literal of xs:decimal within the length guard is read, and as the number it denotes
    (`num / 10^scale`, compared by cross-multiplication) -/
theorem dec_literal_read (s : Text) (h : XsdLex.decimal s = true) (hlen : s.length ≤ facts08x.decMaxStrLen) :
    ∃ d, decFromText facts08x s = .ok (.fin d) ∧
      sameValue d.num d.scale (XsdLex.valueOfDecimal s).1 (XsdLex.valueOfDecimal s).2 :=
  decFromText_xsdDecimal facts08x (by decide) s h hlen

example : Dec.representable ⟨true, 12345, -10⟩ := by unfold Dec.representable; decide +kernel
example : decToText ⟨true, 12345, -10⟩ = "-0.0000012345".toList := by decide +kernel
example : decFromText facts08x "-0.0000012345".toList = .ok (.fin ⟨true, 12345, -10⟩) := by decide +kernel
example : decFromText facts08x " +1_0.50e-3 ".toList = .ok (.fin ⟨false, 1050, -5⟩) := by decide +kernel
example : XsdLex.decimal "+.5".toList = true ∧ XsdLex.valueOfDecimal "-01.50".toList = (-150, 2) := by decide +kernel

/-! ### the XSD lexical spaces of integer, boolean, date, time, dateTime, duration -/

theorem int_in_lexical_space (i : Int) : XsdLex.integer (intToText i) = true := xsdInteger_intToText i

/-- every xs:integer literal (optional sign, leading zeros allowed) within the length guard of the type is
    read as the number it denotes -/
theorem int_literal_read (k : IntKind) (s : Text) (h : XsdLex.integer s = true)
    (hlen : s.length ≤ facts08.intMaxStrLen k) : intFromText facts08 k s = .ok (XsdLex.valueOfInteger s) :=
  intFromText_xsdInteger facts08 k s h hlen

theorem bool_in_lexical_space (b : Bool) : XsdLex.boolean (boolToText b) = true := by cases b <;> decide

theorem bool_literal_read (s : Text) (h : XsdLex.boolean s = true) :
    boolFromText facts08 s = .ok (XsdLex.valueOfBoolean s) := by
  simp only [XsdLex.boolean, Bool.or_eq_true, decide_eq_true_eq] at h
  rcases h with ((h | h) | h) | h <;> subst h <;> decide

theorem date_in_lexical_space (x : Date) (h : x.valid = true) : XsdLex.date (isoDate x) = true := xsdDate_isoDate x h

theorem time_in_lexical_space (t : Time) (h : t.valid = true) : XsdLex.time (isoTime t) = true := xsdTime_isoTime t h

/-- what is written for any valid datetime (year 0001..9999, naive or with an offset within ±14:00, which is all
    XSD allows) is an xs:dateTime literal -/
theorem datetime_in_lexical_space (x : DateTime) (h : x.valid = true)
    (htz : ∀ m, x.tz = some m → -840 ≤ m ∧ m ≤ 840) : XsdLex.dateTime (isoDateTime x) = true := by
  simp [XsdLex.dateTime, xsdDateTimeLit_isoDateTime x h htz]

/-- every xs:dateTime literal that denotes a value a `datetime` can hold (year 0001..9999, hour < 24, a whole
    number of microseconds; `Z`, any offset up to ±14:00 or none; fraction of any length) is read as that value.
    The `24:00:00` spelling is excluded: see KNOWN FINDING `lex-read:dateTime:24:00:00`. -/
theorem datetime_literal_read (s : Text) (l : XsdLex.DtLit) (x : DateTime)
    (h : XsdLex.dateTimeLit s = some l) (hv : l.value? = some x) : dateTimeFromText facts08 s = .ok x :=
  dateTimeFromText_xsd_value facts08 (by decide) (by decide) s l x h hv

/-- …and with a fraction that is not a whole number of microseconds it is read with the fraction rounded
    (half-even on the decimal digits, capped at 999999 µs: `fracToMicros`) -/
theorem datetime_literal_read_rounded (s : Text) (l : XsdLex.DtLit) (h : XsdLex.dateTimeLit s = some l)
    (hneg : l.neg = false) (hy : l.year.length = 4) (h24 : l.hour < 24) :
    dateTimeFromText facts08 s =
      .ok ⟨⟨valNat l.year, l.month, l.day⟩, ⟨l.hour, l.minute, l.second, fracToMicros l.frac⟩, l.tz⟩ :=
  dateTimeFromText_xsd facts08 (by decide) (by decide) s l h hneg hy h24

theorem duration_in_lexical_space (us : Int) : XsdLex.duration (durToText facts08 us) = true :=
  xsdDuration_durToText facts08 (by decide) us

/-- every dayTimeDuration literal (no years/months, at most six fraction digits) that a `timedelta` can hold is
    read as the duration it denotes, to the microsecond -/
theorem duration_literal_read (s : Text) (l : DurLit) (h : XsdLex.durationLit s = some l)
    (hy : l.years = 0) (hm : l.months = 0) (hf : l.secFrac.length ≤ 6)
    (hmax : XsdLex.dayTimeMicros l ≤ maxDurUs)
    (hmin : l.neg = true → XsdLex.dayTimeMicros l ≤ 999999999 * usPerDay) :
    durFromText facts08 s =
      .ok (if l.neg then -(XsdLex.dayTimeMicros l : Int) else (XsdLex.dayTimeMicros l : Int)) := by
  have e := micros_dayTime l hy hm hf
  rw [← e] at hmax hmin ⊢
  exact durFromText_xsd facts08 (by decide) s l h hmax hmin

example : XsdLex.dateTimeLit "2020-02-29T23:59:59.5+14:00".toList =
    some ⟨false, "2020".toList, 2, 29, 23, 59, 59, "5".toList, some 840⟩ := by decide +kernel
example : (XsdLex.DtLit.mk false "2020".toList 2 29 23 59 59 "5".toList (some 840)).value? =
    some ⟨⟨2020, 2, 29⟩, ⟨23, 59, 59, 500000⟩, some 840⟩ := by decide +kernel
example : XsdLex.dateTime "2021-02-29T00:00:00".toList = false ∧ XsdLex.dateTime "2020-01-01T24:00:00".toList = true ∧
    XsdLex.dateTime "2020-01-01T00:00:00+14:01".toList = false := by decide +kernel
example : XsdLex.durationLit "-P1DT2H3M4.5S".toList =
    some { neg := true, days := 1, hours := 2, minutes := 3, secInt := 4, secFrac := "5".toList } := by decide +kernel
example : XsdLex.duration "P1DT".toList = false ∧ XsdLex.duration "P".toList = false ∧ XsdLex.duration "PT1.S".toList = false := by
  decide +kernel
example : XsdLex.integer "+007".toList = true ∧ XsdLex.valueOfInteger "-007".toList = -7 := by decide +kernel

end SpyneModel.Props.C08more
