/-
  C16 (dict-document part) — inheritance and polymorphism preserve the runtime class (JSON / YAML / MessagePack
  with ignore_wrappers=False). Property theorems only, for the facts regenerated from /repo.

  Object types carry their *flattened* member list, ancestors first (`get_flat_type_info`); a registry `R` holds the
  classes known to the interface with their declared parents. The polymorphic theorems cover one polymorphic level
  per object (the instance's own members hold instances of exactly their declared classes; arrays may mix base and
  subclass instances freely): the general nesting needs an induction over the value instead of the type and is
  covered by T2/T3 only.
-/
import Proofs.HierC16
import Props.Facts08Good
import SpyneModel.Generated.Facts02
namespace SpyneModel.Props.C16hier
open SpyneModel SpyneModel.Hier SpyneModel.Generated SpyneModel.Props

theorem facts02_rt : facts02.GoodRT := ⟨by decide, by decide, by decide, by decide⟩

/-- a configuration with wrapper keys and polymorphism switched on -/
def polyCfg (cfg : Cfg) : Prop :=
  cfg.ignoreWrappers = false ∧ cfg.complexAs = .dict ∧ cfg.polymorphic = true ∧ cfg.notWrapped = []

theorem ctx (cfg : Cfg) (h : polyCfg cfg) : RtCtx facts08 facts02 cfg (ownSpell facts08 cfg) true :=
  ownCtx leafLaws08 facts02_rt (by simp [Cfg.selfConsistent, h.2.1])

/-- With polymorphism enabled, an instance of a registered subclass `cd` sent or returned where the base class `name`
    is declared is written under the subclass's name with all of the subclass's members (ancestors first), and the
    reader reconstructs an instance of that same subclass with equal member values. -/
theorem poly_roundtrip_keeps_class (cfg : Cfg) (h : polyCfg cfg) (R : Registry)
    (name ns : Text) (base : Option Text) (fields : Fields) (o : Occ) (cd : ClassDef)
    (hfind : R.find? cd.name = some cd) (hne : cd.name ≠ name) (hsub : R.hier.isSub R.length cd.name name = true)
    (hnd : namesDistinct (cd.fields.map (·.1)) = true) (hwf : wfFields cd.fields = true)
    (fvs : List (Text × Val)) (hc : conformsFields cd.fields fvs = true)
    (hmp : cfg.proto.isMsgpack = true → fitsFields facts08 fvs = true ∧ mpReadableFields cd.fields = true)
    (hpl : plainFields .dict cd.fields fvs = true) :
    decode facts08 facts02 cfg R (.obj name ns base fields o)
      (encOne R (ownSpell facts08 cfg) (.obj name ns base fields o) (.obj cd.name fvs)) = .good (.obj cd.name fvs) :=
  poly_roundtrip R (ctx cfg h) (by simp [ownSpell, h.2.2.1]) (by simp [ownSpell, h.1]) name ns base fields o cd hfind hne hsub
    (by simp [h.2.2.2]) (by simp [h.2.2.2]) hnd hwf fvs hc (fun hm => ⟨(hmp hm).1, fun _ => (hmp hm).2⟩) (by simpa [ownSpell, h.2.1] using hpl)

/-- The transmitted document names the subclass: the type marker is the single wrapper key, spelled the way member
    keys are, and it resolves — in the registry the reader uses — to that subclass. -/
theorem poly_marker_resolves (cfg : Cfg) (h : polyCfg cfg) (R : Registry)
    (name ns : Text) (base : Option Text) (fields : Fields) (o : Occ) (cd : ClassDef)
    (hfind : R.find? cd.name = some cd) (hne : cd.name ≠ name) (hsub : R.hier.isSub R.length cd.name name = true)
    (fvs : List (Text × Val)) :
    ∃ body, encOne R (ownSpell facts08 cfg) (.obj name ns base fields o) (.obj cd.name fvs)
        = .map [(keyOut cfg cd.name, body)] ∧
      resolveClass R name fields (some cd.name) = .good (cd.name, cd.fields) := by
  refine ⟨Doc.map ((encodeFields (ownSpell facts08 cfg) R cd.fields fvs).map (fun p => (keyOut cfg p.1, p.2))), ?_,
    resolveClass_sub R name fields cd hfind hne hsub⟩
  have hpt := polyTarget_sub R (S := ownSpell facts08 cfg) (by simp [ownSpell, h.2.2.1]) name fields cd hfind hne hsub
  simp only [encOne, hpt, wrapPairs]
  simp [ownSpell, h.1, h.2.1, h.2.2.2]

/-- Arrays of the base type holding any mix of base and subclass instances survive as a whole, item by item. -/
theorem poly_array_roundtrip (cfg : Cfg) (R : Registry) (t : Ty) (vs : List Val)
    (hitems : ∀ v ∈ vs, decode facts08 facts02 cfg R t (encOne R (ownSpell facts08 cfg) t v) = .good v) :
    decodeItems facts08 facts02 cfg R t (encodeItems (ownSpell facts08 cfg) R t vs) = .good vs :=
  items_roundtrip_of_each R t vs hitems

/-- With polymorphism disabled exactly the declared class's members are transmitted, whatever the runtime class of the
    instance: the member names written are a sub-sequence of the declared (flattened) member names, under the
    declared class's wrapper key. -/
theorem nonpoly_declared_fields_only (cfg : Cfg) (hp : cfg.polymorphic = false) (R : Registry)
    (name ns : Text) (base : Option Text) (fields : Fields) (o : Occ) (c : Text) (fvs : List (Text × Val)) :
    encOne R (ownSpell facts08 cfg) (.obj name ns base fields o) (.obj c fvs)
      = wrapPairs (ownSpell facts08 cfg) name (encodeFields (ownSpell facts08 cfg) R fields fvs) ∧
    ((encodeFields (ownSpell facts08 cfg) R fields fvs).map (·.1)).Sublist (fields.map (·.1)) := by
  refine ⟨?_, encodeFields_names R fields fvs⟩
  simp [encOne, polyTarget_off R (S := ownSpell facts08 cfg) (by simp [ownSpell, hp])]

/-- A subclass instance carries its ancestors' members followed by its own: the flattened member list of a registered
    subclass extends the one of its base (checked for the generated universes on every run — T1/T2 — and assumed of the
    registry here). -/
theorem subclass_members_written_in_order (cfg : Cfg) (R : Registry) (cd : ClassDef) (fvs : List (Text × Val)) :
    ((encodeFields (ownSpell facts08 cfg) R cd.fields fvs).map (·.1)).Sublist (cd.fields.map (·.1)) :=
  encodeFields_names R cd.fields fvs

/-! ### non-vacuity -/

def exBase : ClassDef := ⟨"Base".toList, "tns".toList, none, [("a".toList, .prim (.integer .i8 {}) {})]⟩
def exSub : ClassDef := ⟨"Sub".toList, "tns".toList, some "Base".toList,
  [("a".toList, .prim (.integer .i8 {}) {}), ("b".toList, .prim .boolean {})]⟩
def exReg : Registry := [exBase, exSub]
def exCfg : Cfg := ⟨.json, .soft, false, .dict, true, false, true, [], []⟩

example : polyCfg exCfg := ⟨rfl, rfl, rfl, rfl⟩
example : exReg.find? exSub.name = some exSub := by simp [exReg, exSub, exBase, Registry.find?]
example : exReg.hier.isSub exReg.length exSub.name "Base".toList = true := by decide
example : namesDistinct (exSub.fields.map (·.1)) = true ∧ wfFields exSub.fields = true := by decide
example : conformsFields exSub.fields [("a".toList, .int 5), ("b".toList, .bool true)] = true := by
  simp [exSub, conformsFields, conforms, conformsOne, Ty.occ, Occ.repeated, PrimTy.valueOk, IntKind.lo, IntKind.hi, Range.holds]

end SpyneModel.Props.C16hier
