/-
  C15 — deriving a model never changes another model; field order is deterministic.
  Property theorems only; every theorem is about the model instantiated with the facts regenerated from
  /repo (`Generated.facts15`), side conditions discharged by `decide`.

  Vocabulary (SpyneModel/Derive*.lean): a `Heap` of classes and `Attributes` records; `Op` = primitive call /
  customize (with child_attrs, child_attrs_all) / Array, Iterable / Mandatory / class statement / append_field /
  insert_field / XmlAttribute; `apply` runs one operation (the heap of a *raising* operation is the heap it
  reached); `runOps` a history; `obs1` = what is observable of one class (resolved public attributes,
  validation verdicts on the probe values, ordered field table, base, original, type name, namespace);
  `deepObs` = the deep, identity-free snapshot; `touched` = the classes an operation is entitled to change
  (append/insert: the class and the keys of its `_variants`; everything else: nothing);
  `Inv` = the variants discipline (every class of the ComplexModel family has its own `_variants`, whose keys
  are exactly its customised variants).
-/
import Proofs.DeriveExact
import SpyneModel.Generated.Facts15
namespace SpyneModel.Props.C15
open SpyneModel.Derive SpyneModel.Generated

/-- the switches measured on /repo have their good values: Mandatory copies, every class owns its `_variants`,
    a derived class gets a deep copy of `sqla_column_args` -/
theorem good_facts : GoodFacts facts15 := ⟨by decide, by decide, by decide, by decide, by decide, by decide⟩

instance : DeepCopy facts15 := ⟨by decide, by decide, by decide⟩

/-! ### histories keep the variants discipline -/

theorem discipline_initially : Inv (initHeap facts15) := inv_init facts15 (by decide)

/-- after any history of operations (returning or raising), from the initial pool -/
theorem discipline_always (fuel : Nat) (ops : List Op) : Inv (runOps facts15 fuel (initHeap facts15) ops) :=
  inv_runOps facts15 (by decide) (by decide) fuel ops _ discipline_initially

/-- the keys of a class's `_variants` are exactly the customised variants of that class - never those of its
    base class or of a subclass -/
theorem variants_are_the_customised (fuel : Nat) (ops : List Op) (c : Nat) (cl : Cls)
    (hc : (runOps facts15 fuel (initHeap facts15) ops).cls[c]? = some cl) (hk : cl.kind.isComplex = true) (v : Nat) :
    v ∈ variantsOf (runOps facts15 fuel (initHeap facts15) ops) c
      ↔ ∃ vc, (runOps facts15 fuel (initHeap facts15) ops).cls[v]? = some vc ∧ vc.kind.isComplex = true
          ∧ vc.orig = some c :=
  variants_exact _ (discipline_always fuel ops) c cl hc hk v

/-! ### frame -/

/-- FRAME (one step, records): an operation - returning or raising half-way - leaves the class record of every
    existing model outside `touched`, the public part of every existing `Attributes` class, and the
    family / `Attributes` / original of *every* existing model as they were -/
theorem frame_step (fuel : Nat) (h : Heap) (ih : Inv h) (op : Op) :
    Ext h.cls.length h.attrs.length (touched facts15 h op) h (apply facts15 fuel h op).heap :=
  frame_ext facts15 good_facts fuel h ih op

/-- FRAME (one step, observations): resolved attributes, verdicts, fields, base, original, type name and
    namespace of every existing model outside `touched` are unchanged -/
theorem frame_step_obs (fuel : Nat) (h : Heap) (ih : Inv h) (op : Op) (c : Nat) (hc : c < h.cls.length)
    (ht : c ∉ touched facts15 h op) :
    obs1 facts15 (apply facts15 fuel h op).heap c = obs1 facts15 h c :=
  frame_obs facts15 good_facts fuel h ih op c hc ht

/-- deriving operations are entitled to change nothing at all -/
theorem deriving_touches_nothing (h : Heap) (op : Op) (hop : op.derives = true) : touched facts15 h op = [] := by
  cases op <;> simp [touched, Op.derives] at hop ⊢
  decide

/-- a class statement is entitled to change one existing class only: the one it extends (whose `_subclasses` list
    gets the new class); customising that subclass later - customize, child attributes, Mandatory, Array - is a
    deriving operation and touches nothing (`deriving_touches_nothing`), so the base's `_subclasses` stay as they are -/
theorem class_statement_touches_base_only (h : Heap) (base : Option Nat) (name : String) (ns : Option String)
    (fields : List (String × Nat)) (perm : List Nat) (attrs : Option Kw) (mixins : List Nat) (asMixin : Bool) (x : Nat)
    (hx : x ∈ touched facts15 h (.subclass base name ns fields perm attrs mixins asMixin)) :
    ∃ bc, h.cls[base.getD facts15.complexRoot]? = some bc
      ∧ subclassExtends (base.getD facts15.complexRoot) bc = .ok (some x) := by
  simp only [touched] at hx
  cases hb : h.cls[base.getD facts15.complexRoot]? with
  | none => simp [hb] at hx
  | some bc =>
    simp only [hb] at hx
    cases hs : subclassExtends (base.getD facts15.complexRoot) bc with
    | error e => simp [hs] at hx
    | ok ext =>
      cases ext with
      | none => simp [hs] at hx
      | some e =>
        simp only [hs, List.mem_singleton] at hx
        subst hx
        exact ⟨bc, rfl, hs⟩

/-- append_field / insert_field are entitled to change the class and its own customised variants only -/
theorem evolving_touches_class_and_variants (fuel : Nat) (ops : List Op) (c : Nat) (name : String) (t x : Nat)
    (cl : Cls) (hc : (runOps facts15 fuel (initHeap facts15) ops).cls[c]? = some cl) (hk : cl.kind.isComplex = true)
    (hx : x ∈ touched facts15 (runOps facts15 fuel (initHeap facts15) ops) (.append c name t)) :
    x = c ∨ ∃ vc, (runOps facts15 fuel (initHeap facts15) ops).cls[x]? = some vc ∧ vc.kind.isComplex = true
      ∧ vc.orig = some c := by
  simp only [touched, List.mem_cons] at hx
  rcases hx with rfl | hx
  · left; rfl
  · right; exact (variants_are_the_customised fuel ops c cl hc hk x).mp hx

/-- FRAME (histories): for every history `ops0` from the initial pool, every continuation `ops` and every model
    existing after `ops0`: if no step of `ops` is entitled to change it, its observation at the end is the one it
    had - whatever was derived from it or from others, appended or inserted elsewhere, and whichever steps raised -/
theorem history_frame (fuel : Nat) (ops0 ops : List Op) (c : Nat)
    (hc : c < (runOps facts15 fuel (initHeap facts15) ops0).cls.length)
    (hu : untouched facts15 fuel c (runOps facts15 fuel (initHeap facts15) ops0) ops) :
    obs1 facts15 (runOps facts15 fuel (runOps facts15 fuel (initHeap facts15) ops0) ops) c
      = obs1 facts15 (runOps facts15 fuel (initHeap facts15) ops0) c :=
  SpyneModel.Derive.history_frame facts15 good_facts fuel ops _ (discipline_always fuel ops0) c hc hu

/-- DEEP FRAME: the deep snapshot (the model with everything it refers to: field types, base classes, wrapped
    types, recursively; flat field order included) is unchanged when the shallow observation of every model in
    a reference-closed set around it is unchanged -/
theorem deep_frame (h h' : Heap) (S : Nat → Prop)
    (hs : ∀ x, S x → obs1 facts15 h' x = obs1 facts15 h x)
    (hclosed : ∀ x o, S x → obs1 facts15 h x = some o → ∀ y, y ∈ succs o → S y)
    (fuel c : Nat) (hc : S c) : deepObs facts15 fuel h' c = deepObs facts15 fuel h c :=
  deepObs_congr facts15 h h' S hs hclosed fuel c hc

/-- the class returned by a deriving operation is a new one -/
theorem derive_returns_new (fuel : Nat) (h h' : Heap) (op : Op) (hop : op.derives = true) (id : Nat)
    (hr : apply facts15 fuel h op = .ok h' (some id)) : h.cls.length ≤ id :=
  derive_new_id facts15 (by decide) fuel h h' op hop id hr

/-! ### exactly the requested constraints -/

/-- calling / customising a primitive: each attribute of the returned class is the value written for it by the
    keyword loop (aliases resolved, see `normOne`; `nillable` re-initialised with the value in force), and every
    attribute the loop did not write resolves to what the source class resolves to -/
theorem primitive_customize_exact (fuel : Nat) (ops : List Op) (src : Nat) (kw : Kw) (h' : Heap) (id : Nat) (sc : Cls)
    (hsc : (runOps facts15 fuel (initHeap facts15) ops).cls[src]? = some sc)
    (hr : simpleCustomize facts15 src kw (runOps facts15 fuel (initHeap facts15) ops) = .ok h' id) (k : String) :
    attrOf h' id k
      = match kwLookup (newAttrRec facts15 (runOps facts15 fuel (initHeap facts15) ops) sc.attrs
          (if sc.kind == .number then numberKw facts15 (runOps facts15 fuel (initHeap facts15) ops) sc.attrs kw else kw)).own k with
        | some v => some v
        | none => attrOf (runOps facts15 fuel (initHeap facts15) ops) src k :=
  simpleCustomize_exact facts15 src kw _ h' id (discipline_always fuel ops) sc hsc hr k

/-- `customize` of a ComplexModel / Array class, with or without child_attrs / child_attrs_all: the class returned
    is new, of the same family, registered with the same original, and its attributes are exactly the keyword
    loop's writes on top of what the source class resolves to -/
theorem complex_customize_exact (fuel f : Nat) (ops : List Op) (src : Nat) (kw : Kw)
    (ca : Option (List (String × Kw))) (caa : Option Kw) (h' : Heap) (id : Nat) (sc : Cls)
    (hsc : (runOps facts15 fuel (initHeap facts15) ops).cls[src]? = some sc)
    (hr : custComplex facts15 (f + 1) src kw ca caa (runOps facts15 fuel (initHeap facts15) ops) = .ok h' id) :
    (runOps facts15 fuel (initHeap facts15) ops).cls.length ≤ id
      ∧ (∃ cl, h'.cls[id]? = some cl ∧ cl.kind = sc.kind ∧ cl.orig = some (sc.orig.getD src))
      ∧ ∀ k, attrOf h' id k
          = match kwLookup (newAttrRec facts15 (runOps facts15 fuel (initHeap facts15) ops) sc.attrs kw).own k with
            | some v => some v
            | none => attrOf (runOps facts15 fuel (initHeap facts15) ops) src k :=
  custComplex_exact facts15 f src kw ca caa _ h' id (discipline_always fuel ops) sc hsc hr

/-- container-valued attribute `sqla_column_args`: the derived class's column keywords are a dict of its own -
    the source's keywords plus `primary_key` (`pk`) / `autoincrement` / `onupdate` / `server_default` as requested.
    (That the source, its other derivatives and their users keep theirs is part of `frame_step_obs` /
    `history_frame`: `obs1` contains the resolved column keywords.) -/
theorem column_keywords_exact (src : Nat) (kw : Kw) (h h' : Heap) (id : Nat) (sc : Cls)
    (hsc : h.cls[src]? = some sc) (hr : simpleCustomize facts15 src kw h = .ok h' id) :
    (obs1 facts15 h' id).map (·.col)
      = some (some (applyCol (((colH h sc.attrs).map (·.2)).getD [])
          (colWrites (if sc.kind == .number then numberKw facts15 h sc.attrs kw else kw)))) :=
  simpleCustomize_col facts15 src kw h h' id sc hsc hr

/-- re-deriving a facet (`Unicode(pattern=A)(pattern=B)`, `Integer(ge=0)(ge=3)`, lengths, values ...): the verdict
    function of the derived type (validate_native / validate_string on all probe values) is the verdict function of
    the attributes the keyword loop wrote - the compiled regex `_pattern_re` follows `pattern` (`patRule = always`,
    by `decide`, see `pattern_recompiled`) - on top of the source's attributes -/
theorem derived_verdicts_exact (fuel : Nat) (ops : List Op) (src : Nat) (kw : Kw) (h' : Heap) (id : Nat) (sc : Cls)
    (hsc : (runOps facts15 fuel (initHeap facts15) ops).cls[src]? = some sc)
    (hr : simpleCustomize facts15 src kw (runOps facts15 fuel (initHeap facts15) ops) = .ok h' id) :
    ∃ cl, h'.cls[id]? = some cl ∧ verdicts h' cl = verdictsFn sc.kind sc.lo sc.hi (fun k =>
      match kwLookup (newAttrRec facts15 (runOps facts15 fuel (initHeap facts15) ops) sc.attrs
          (if sc.kind == .number then numberKw facts15 (runOps facts15 fuel (initHeap facts15) ops) sc.attrs kw else kw)).own k with
      | some v => some v
      | none => attrOf (runOps facts15 fuel (initHeap facts15) ops) src k) :=
  simpleCustomize_verdicts facts15 src kw _ h' id (discipline_always fuel ops) sc hsc hr

/-- whenever the keyword loop writes a pattern, the fresh `Attributes` holds the regex compiled from *that* pattern -/
theorem pattern_recompiled (h : Heap) (a : Nat) (kw : Kw) (v : AVal)
    (hp : kwLookup (normKw kw) "pattern" = some v) (hv : v ≠ .none) :
    kwLookup (newAttrRec facts15 h a kw).own "_pattern_re" = some v := by
  have hr : facts15.patRule = .always := by decide
  have hv' : (v == AVal.none) = false := by simpa using hv
  simp only [newAttrRec, hp, hr, hv', Bool.false_eq_true, if_false]
  simp [kwLookup]

/-- delayed child attributes, precedence: `append_field` and `insert_field` customise the new field first with the
    variant's `child_attrs_all`, then with the `child_attrs` entry given for that field name ... -/
theorem delayed_general_then_specific (fuel : Nat) (name : String) (t c idx : Nat) :
    appendImpl facts15 fuel name t c = (do
        let t2 ← (do
          let t1 ← delayedAll facts15 fuel c t
          delayedOne facts15 fuel c name t1 false)
        updCls c (fun cl => { cl with fields := odictSet cl.fields name t2 }))
    ∧ insertImpl facts15 fuel idx name t c = (do
        let t2 ← (do
          let t1 ← delayedAll facts15 fuel c t
          delayedOne facts15 fuel c name t1 true)
        updCls c (fun cl => { cl with fields := odictInsert cl.fields idx name t2 })) := by
  have h1 : facts15.delayAppend = .allFirst := by decide
  have h2 : facts15.delayInsert = .allFirst := by decide
  constructor
  · simp only [appendImpl, delayedBoth, h1]
  · simp only [insertImpl, delayedBoth, h2]

/-- ... so the specific entry beats the general one (as it does for fields that existed when the variant was made):
    after customising a primitive with `d` and the result with `e`, each attribute is `e`'s write, else `d`'s, else
    the source's -/
theorem specific_beats_general (fuel : Nat) (ops : List Op) (t : Nat) (d e : Kw) (h1 h2 : Heap) (t1 t2 : Nat) (tc : Cls)
    (htc : (runOps facts15 fuel (initHeap facts15) ops).cls[t]? = some tc)
    (r1 : simpleCustomize facts15 t d (runOps facts15 fuel (initHeap facts15) ops) = .ok h1 t1)
    (r2 : simpleCustomize facts15 t1 e h1 = .ok h2 t2) (k : String) :
    ∃ c1, h1.cls[t1]? = some c1 ∧ c1.kind = tc.kind ∧
      attrOf h2 t2 k =
        match kwLookup (newAttrRec facts15 h1 c1.attrs (if c1.kind == .number then numberKw facts15 h1 c1.attrs e else e)).own k with
        | some v => some v
        | none =>
          match kwLookup (newAttrRec facts15 (runOps facts15 fuel (initHeap facts15) ops) tc.attrs
              (if tc.kind == .number then numberKw facts15 (runOps facts15 fuel (initHeap facts15) ops) tc.attrs d else d)).own k with
          | some v => some v
          | none => attrOf (runOps facts15 fuel (initHeap facts15) ops) t k :=
  simpleCustomize_twice_exact facts15 t d e _ h1 h2 t1 t2 (discipline_always fuel ops) tc htc r1 r2 k

/-- `Mandatory(primitive)`: `min_occurs = 1`, `nillable = False`, and `min_len = 1` for Unicode -/
theorem mandatory_primitive_exact (fuel f : Nat) (ops : List Op) (src : Nat) (h' : Heap) (id : Nat) (sc : Cls)
    (hsc : (runOps facts15 fuel (initHeap facts15) ops).cls[src]? = some sc)
    (hk : sc.kind = .number ∨ sc.kind = .unicode ∨ sc.kind = .bytes ∨ sc.kind = .simple)
    (hr : mandatory facts15 (f + 2) src (runOps facts15 fuel (initHeap facts15) ops) = .ok h' id) :
    attrOf h' id "min_occurs" = some (.int 1) ∧ attrOf h' id "nillable" = some (.bool false)
      ∧ (sc.kind = .unicode → attrOf h' id "min_len" = some (.int 1)) :=
  mandatory_simple_exact facts15 (by decide) f src _ h' id (discipline_always fuel ops) sc hsc hk hr

/-- the writes of the keyword loop, latest keyword first -/
theorem keyword_loop_writes (kw : Kw) : normKw kw = (kw.reverse.map (fun p => normOne p.1 p.2)).flatten :=
  normKw_eq kw

/-- customising a number keeps its `max_str_len` unless `total_digits` or `max_str_len` is requested -/
theorem number_keeps_max_str_len (h : Heap) (a : Nat) (kw : Kw)
    (h1 : kwLookup kw "max_str_len" = none) (h2 : kwLookup kw "total_digits" = none) :
    kwLookup (numberKw facts15 h a kw) "max_str_len" = none := by
  have hf : facts15.mslRule = .followsRequested := by decide
  simp only [numberKw, h1, h2, hf]
  have : ∀ l : Kw, kwLookup l "max_str_len" = none → kwLookup (odictErase l "max_str_len") "max_str_len" = none := by
    intro l
    induction l with
    | nil => intro _; rfl
    | cons p rest ih =>
      intro hl
      simp only [kwLookup, List.find?_cons] at hl ⊢
      by_cases hp : (p.1 == "max_str_len") = true
      · simp [hp] at hl
      · simp only [hp] at hl
        simp only [odictErase, List.filter_cons, hp, Bool.not_false, if_true, List.find?_cons, Bool.false_eq_true]
        exact ih hl
  exact this kw h1

/-! ### fields added afterwards reach every variant -/

/-- after a successful `append_field` the class has the field, and so has every model that was a customised
    variant of the class before the call -/
theorem append_reaches_all_variants (fuel : Nat) (ops : List Op) (c : Nat) (name : String) (t : Nat) (h' : Heap)
    (r : Option Nat)
    (hr : apply facts15 fuel (runOps facts15 fuel (initHeap facts15) ops) (.append c name t) = .ok h' r) :
    HasField name h' c ∧ ∀ v vc, (runOps facts15 fuel (initHeap facts15) ops).cls[v]? = some vc →
      vc.kind.isComplex = true → vc.orig = some c → HasField name h' v := by
  obtain ⟨cl, hc, hk, he⟩ := evolveOp_ok _ _ h' c t r hr
  exact evolve_reaches name _ (implHas_append facts15 fuel name t) _ h' (discipline_always fuel ops) c cl hc hk he

theorem insert_reaches_all_variants (fuel : Nat) (ops : List Op) (c idx : Nat) (name : String) (t : Nat) (h' : Heap)
    (r : Option Nat)
    (hr : apply facts15 fuel (runOps facts15 fuel (initHeap facts15) ops) (.insert c idx name t) = .ok h' r) :
    HasField name h' c ∧ ∀ v vc, (runOps facts15 fuel (initHeap facts15) ops).cls[v]? = some vc →
      vc.kind.isComplex = true → vc.orig = some c → HasField name h' v := by
  obtain ⟨cl, hc, hk, he⟩ := evolveOp_ok _ _ h' c t r hr
  exact evolve_reaches name _ (implHas_insert facts15 fuel idx name t) _ h' (discipline_always fuel ops) c cl hc hk he

/-! ### field order -/

/-- `append_field`: a new name goes to the end, an existing one keeps its place -/
theorem append_position (d : List (String × Nat)) (k : String) (v : Nat) :
    keysOf (odictSet d k v) = if k ∈ keysOf d then keysOf d else keysOf d ++ [k] := keysOf_odictSet d k v

/-- `insert_field(i, ...)`: the name is taken out if present and put at position `i` (clipped to the end) -/
theorem insert_position (d : List (String × Nat)) (i : Nat) (k : String) (v : Nat) :
    keysOf (odictInsert d i k v) = listInsertAt ((keysOf d).filter (fun x => !(x == k))) i k :=
  keysOf_odictInsert d i k v

/-- a field type with an `order` attribute is taken out of the declared sequence and inserted at that position
    (the documented way to deviate from the declaration order); without such field types the sequence is kept -/
theorem explicit_order_only (h : Heap) (fs : List (String × Nat)) (hn : ∀ p, p ∈ fs → orderOf h p.2 = none) :
    applyOrder h fs = fs := applyOrder_none h fs hn

/-- `child_attrs_noexc`: `child_attrs_all` gets `exc=True`, the named entries get `exc=False` and take the place of
    the `child_attrs` entries of the same name; without it both dicts are used as given -/
theorem noexc_none (ca : Option (List (String × Kw))) (caa : Option Kw) : noexcPrep ca caa none = (ca, caa) := rfl

/-- a class statement lists the fields of its `__mixin__` bases first (in base order, each mixin's flat fields in
    their own order), then its own fields in the order written (those the mixins do not define); that order does not
    depend on how an unordered container would enumerate them (hash seed) -/
theorem class_statement_order (base : Option Nat) (name : String) (ns : Option String) (fields : List (String × Nat))
    (perm : List Nat) (attrs : Option Kw) (mixins : List Nat) (asMixin : Bool) (h h' : Heap) (id : Nat)
    (hn : (keysOf fields).Nodup) (hm : (keysOf (mixinFields h mixins)).Nodup)
    (hord : ∀ p, p ∈ prependMixins facts15 (mixinFields h mixins) (declaredFields facts15 perm fields) →
      orderOf h p.2 = none)
    (hr : subclassOp facts15 base name ns fields perm attrs mixins asMixin h = .ok h' id) :
    ∃ cl, h'.cls[id]? = some cl ∧ keysOf cl.fields
      = keysOf (mixinFields h mixins)
        ++ (keysOf fields).filter (fun k => !(keysOf (mixinFields h mixins)).contains k) := by
  obtain ⟨cl, h1, h2, _⟩ := subclassOp_result facts15 base name ns fields perm attrs mixins asMixin h h' id hr
  refine ⟨cl, h1, ?_⟩
  rw [h2, applyOrder_none h _ hord]
  have hd : declaredFields facts15 perm fields = odictFromList fields := by
    simp only [declaredFields]
    have : facts15.dictOrdered = true := by decide
    simp [this]
  have hmo : facts15.mixinOrder = .declared := by decide
  simp only [prependMixins, hmo, hd]
  rw [keysOf_prepend _ _ hm, keysOf_odictFromList fields hn]

theorem class_statement_seed_independent (op1 op2 : List Nat) (base : Option Nat) (name : String) (ns : Option String)
    (fields : List (String × Nat)) (attrs : Option Kw) (mixins : List Nat) (asMixin : Bool) (h : Heap) :
    subclassOp facts15 base name ns fields op1 attrs mixins asMixin h
      = subclassOp facts15 base name ns fields op2 attrs mixins asMixin h := by
  have : ∀ perm, declaredFields facts15 perm fields = odictFromList fields := by
    intro perm
    simp only [declaredFields]
    have : facts15.dictOrdered = true := by decide
    simp [this]
  simp only [subclassOp, subclassRest, this]

/-- `customize(prot=p)`: the protocol's `type_attrs` dict is what it was, after any operation -/
theorem protocol_defaults_untouched (fuel : Nat) (h : Heap) (ih : Inv h) (op : Op) :
    (apply facts15 fuel h op).heap.prots = h.prots := (frame_step fuel h ih op).prots

/-- flat type info (what every protocol and the schema generator iterate): parents first ... -/
theorem flat_parents_first (fuel : Nat) (h : Heap) (c e : Nat) (cl : Cls) (hc : h.cls[c]? = some cl)
    (he : cl.ext = some e) : flatKeysF fuel h e <+: flatKeysF (fuel + 1) h c :=
  SpyneModel.Derive.flat_parents_first fuel h c e cl hc he

/-- ... then the own fields the bases do not have, in `_type_info` order -/
theorem flat_then_own (fuel : Nat) (h : Heap) (c : Nat) (cl : Cls) (hc : h.cls[c]? = some cl)
    (hn : (keysOf cl.fields).Nodup) :
    flatKeysF (fuel + 1) h c
      = (match cl.ext with | some e => flatKeysF fuel h e | none => [])
        ++ (keysOf cl.fields).filter
            (fun k => !(match cl.ext with | some e => flatKeysF fuel h e | none => []).contains k) :=
  SpyneModel.Derive.flat_then_own fuel h c cl hc hn

/-! ### non-vacuity: a concrete history (pool slots 0.. are Integer, Unicode, Decimal, Integer32, ...) -/

def s1 := apply facts15 1000 (initHeap facts15) (.subclass none "A" (some "ns") [("a", 0), ("b", 1)] [] none [] false)
def s2 := apply facts15 1000 s1.heap (.subclass (some 12) "B" none [("c", 3)] [] (some [("foo", .int 42)]) [] false)
def s3 := apply facts15 1000 s2.heap (.customize 12 [("min_occurs", .int 1)] none none none none none)
def s4 := apply facts15 1000 s3.heap (.customize 13 [] none (some [("nillable", .bool false)]) none none none)
def s5 := apply facts15 1000 s4.heap (.append 13 "w" 1)
def s6 := apply facts15 1000 s5.heap (.array 0 none [] false false)
def s7 := apply facts15 1000 s6.heap (.mandatory 21)
def s8 := apply facts15 1000 s7.heap (.customize 3 [("ge", .int 0)] none none none none none)

example : s1.heap.cls.length = 13 ∧ s3.heap.cls.length = 15 ∧ s4.heap.cls.length = 20 := by decide +kernel
-- B's variants are B's, A's are A's
example : variantsOf s4.heap 12 = [14, 17] ∧ variantsOf s4.heap 13 = [15] := by decide +kernel
example : touched facts15 s4.heap (.append 13 "w" 1) = [13, 15] := by decide +kernel
-- the appended field reached B and its variant (there customised by the delayed child_attrs_all), not A's variant
example : (s5.heap.cls[13]?).map (fun c => keysOf c.fields) = some ["c", "w"]
    ∧ (s5.heap.cls[15]?).map (fun c => keysOf c.fields) = some ["c", "w"]
    ∧ (s5.heap.cls[14]?).map (fun c => keysOf c.fields) = some ["a", "b"] := by decide +kernel
example : flatKeys s5.heap 15 = ["a", "b", "c", "w"] := by decide +kernel
-- Mandatory(Array(Integer)) leaves the array's member alone and gives the new array a mandatory one
example : obs1 facts15 s7.heap 21 = obs1 facts15 s6.heap 21 := by decide +kernel
example : ((s7.heap.cls[23]?).bind (fun c => (c.fields.head?).map (fun p => attrOf s7.heap p.2 "min_occurs")))
    = some (some (.int 1)) := by decide +kernel
-- Integer32(ge=0) keeps the length guard of Integer32
example : attrOf s8.heap 25 "max_str_len" = attrOf s8.heap 3 "max_str_len" ∧ attrOf s8.heap 25 "ge" = some (.int 0) := by
  decide +kernel
-- class Base; class Sub(Base); Sub.customize(...), Mandatory(Sub), Array(Sub): Base's `_subclasses` stay [Sub]
def b1 := apply facts15 1000 (initHeap facts15) (.subclass none "Base" (some "ns") [("a", 0)] [] none [] false)
def b2 := apply facts15 1000 b1.heap (.subclass (some 12) "Sub" (some "ns") [("b", 0)] [] none [] false)
def b3 := apply facts15 1000 b2.heap (.customize 13 [("min_occurs", .int 1)] none (some [("nillable", .bool false)]) none none none)
def b4 := apply facts15 1000 b3.heap (.mandatory 13)
def b5 := apply facts15 1000 b4.heap (.array 13 none [] false false)
example : (obs1 facts15 b2.heap 12).map (·.subs) = some (some [13]) ∧ obs1 facts15 b5.heap 12 = obs1 facts15 b2.heap 12 := by
  decide +kernel
-- child_attrs_noexc, `order`, serializer_attrs on a concrete history
def n1 := apply facts15 1000 (initHeap facts15) (.subclass none "NA" (some "ns") [("a", 0), ("b", 1), ("c", 0)] [] none [] false)
def n2 := apply facts15 1000 n1.heap (.customize 12 [] (some [("b", [("min_occurs", .int 2)])]) (some [("min_occurs", .int 1)]) none
  (some [("a", [("max_occurs", .int 2)])]) none)
example : (n2.heap.cls[13]?).map (fun c => c.fields.map (fun p => (p.1, attrOf n2.heap p.2 "exc", attrOf n2.heap p.2 "min_occurs")))
    = some [("a", some (.bool false), some (.int 1)), ("b", some (.bool true), some (.int 2)), ("c", some (.bool true), some (.int 1))] := by
  decide +kernel
def o1 := apply facts15 1000 (initHeap facts15) (.customize 1 [("order", .int 0)] none none none none none)
def o2 := apply facts15 1000 o1.heap (.customize 0 [("order", .int 1)] none none none none none)
def o3 := apply facts15 1000 o2.heap (.subclass none "OB" (some "ns") [("x", 0), ("y", 12), ("z", 13), ("w", 1)] [] none [] false)
example : (o3.heap.cls[14]?).map (fun c => keysOf c.fields) = some ["y", "z", "x", "w"] := by decide +kernel
def a1 := apply facts15 1000 (initHeap facts15) (.array 0 none [] false false)
def a2 := apply facts15 1000 a1.heap (.customize 12 [("max_occurs", .int 3)] none none none none (some [("min_occurs", .int 1)]))
example : obs1 facts15 a2.heap 12 = obs1 facts15 a1.heap 12 ∧ obs1 facts15 a2.heap 13 = obs1 facts15 a1.heap 13 := by decide +kernel
-- class M1: __mixin__ = True; x, y   class M2 (mixin): z   class K(M1, M2, A): own c, y  ->  x, y, z, c  (A's fields by base)
def m1 := apply facts15 1000 (initHeap facts15) (.subclass none "M1" (some "ns") [("x", 0), ("y", 1)] [] none [] true)
def m2 := apply facts15 1000 m1.heap (.subclass none "M2" (some "ns") [("z", 0)] [] none [] true)
def m3 := apply facts15 1000 m2.heap (.subclass none "A" (some "ns") [("a", 0)] [] none [] false)
def m4 := apply facts15 1000 m3.heap (.subclass (some 14) "K" (some "ns") [("c", 0), ("y", 0)] [] none [12, 13] false)
example : (m4.heap.cls[15]?).map (fun c => keysOf c.fields) = some ["x", "y", "z", "c"]
    ∧ flatKeys m4.heap 15 = ["a", "x", "y", "z", "c"] := by decide +kernel
-- A.customize(child_attrs_all={min_occurs: 1}, child_attrs={later: {min_occurs: 2}}); A.append_field('later', Integer):
-- in the variant the field carries the specific value
def d1 := apply facts15 1000 (initHeap facts15) (.subclass none "A" none [("a", 0)] [] none [] false)
def d2 := apply facts15 1000 d1.heap (.customize 12 [] (some [("later", [("min_occurs", .int 2)])]) (some [("min_occurs", .int 1)]) none none none)
def d3 := apply facts15 1000 d2.heap (.append 12 "later" 0)
example : ((d3.heap.cls[13]?).bind (fun c => (odictGet c.fields "later").map (fun t => attrOf d3.heap t "min_occurs")))
    = some (some (.int 2))
    ∧ ((d3.heap.cls[13]?).bind (fun c => (odictGet c.fields "a").map (fun t => attrOf d3.heap t "min_occurs")))
    = some (some (.int 1)) := by decide +kernel
-- Unicode(pattern='[a-z]+')(pattern='[0-9]+'): validation follows the second pattern
def p1 := apply facts15 1000 (initHeap facts15) (.customize 1 [("pattern", .str "[a-z]+")] none none none none none)
def p2 := apply facts15 1000 p1.heap (.customize 12 [("pattern", .str "[0-9]+")] none none none none none)
example : attrOf p2.heap 13 "_pattern_re" = some (.str "[0-9]+") ∧ attrOf p2.heap 12 "_pattern_re" = some (.str "[a-z]+") := by
  decide +kernel
example : (p2.heap.cls[13]?).map (fun c => (verdicts p2.heap c).drop 15) =
    some [false, false, false, false, false, false, true, true, false] := by decide +kernel
-- Code = Unicode(max_len=32); Code(pk=True); Code(min_len=2): only the pk flavour is a primary key
def c1 := apply facts15 1000 (initHeap facts15) (.customize 1 [("max_len", .int 32)] none none none none none)
def c2 := apply facts15 1000 c1.heap (.customize 12 [("pk", .bool true)] none none none none none)
def c3 := apply facts15 1000 c2.heap (.customize 12 [("min_len", .int 2), ("autoincrement", .bool true)] none none none none none)
example : (obs1 facts15 c3.heap 12).map (·.col) = some (some [])
    ∧ (obs1 facts15 c3.heap 13).map (·.col) = some (some [("primary_key", .bool true)])
    ∧ (obs1 facts15 c3.heap 14).map (·.col) = some (some [("autoincrement", .bool true)])
    ∧ (obs1 facts15 c3.heap 1).map (·.col) = some none := by decide +kernel
example : untouched facts15 1000 12 s4.heap [.append 13 "w" 1, .array 0 none [] false false, .mandatory 21] :=
  ⟨by decide +kernel, by decide +kernel, by decide +kernel, trivial⟩

end SpyneModel.Props.C15
