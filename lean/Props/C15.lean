/-
  C15 — deriving a model never changes another model; field order is deterministic.
  Property theorems only; every theorem is about the model instantiated with the facts regenerated from
  /repo (`Generated.facts15`), side conditions discharged by `decide`.
-/
import Proofs.DeriveObs
import SpyneModel.Generated.Facts15
namespace SpyneModel.Props.C15
open SpyneModel.Derive SpyneModel.Generated

/-- Deriving (primitive call, customize with any attribute set, child_attrs / child_attrs_all, Array / Iterable,
    Mandatory, subclassing, XmlAttribute) - whether it returns or raises half-way - leaves the class record of
    every existing model and the public attributes of every existing `Attributes` class as they were. -/
theorem derive_frame (fuel : Nat) (h : Heap) (op : Op) (hop : op.derives = true) :
    Ext h.cls.length h.attrs.length [] h (apply facts15 fuel h op).heap :=
  derive_ext facts15 (by decide) fuel h op hop

/-- ... hence the shallow observation (resolved attributes, verdicts on the probe values, ordered fields, base,
    original, type name, namespace) of every existing model is unchanged -/
theorem derive_frame_obs (fuel : Nat) (h : Heap) (op : Op) (hop : op.derives = true) (c : Nat)
    (hc : c < h.cls.length) (hr : ∀ cl, h.cls[c]? = some cl → cl.attrs < h.attrs.length) :
    obs1 facts15 (apply facts15 fuel h op).heap c = obs1 facts15 h c :=
  obs1_ext facts15 (derive_frame fuel h op hop) c hc (by simp) hr

/-- the class a deriving operation returns is new -/
theorem derive_returns_new (fuel : Nat) (h h' : Heap) (op : Op) (hop : op.derives = true) (id : Nat)
    (hr : apply facts15 fuel h op = .ok h' (some id)) : h.cls.length ≤ id :=
  derive_new_id facts15 (by decide) fuel h h' op hop id hr

end SpyneModel.Props.C15
