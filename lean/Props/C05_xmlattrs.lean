/-
  C05 (XML part), continued — soft validation of classes with XmlAttribute / XmlData members
  (SpyneModel/XmlAttr.lean, vocabulary in Props/C01_attrs.lean).

  "accepted iff every value satisfies the declared constraints", as its two halves:
    IF      `xml_soft_accepts_conformant_attrs`: what is written from an object that satisfies every declared
            constraint — attribute members within the facets of their type and present when required, the
            data member within the facets of its type — is accepted and the object arrives;
    ONLY IF `xml_soft_accepted_conforms_attrs`: for EVERY document, what the soft validator lets through
            satisfies every declared constraint (`okOneA false`), at every nesting depth: a delivered attribute
            value satisfies the facets of the attribute's type, a required attribute was present, the data
            value satisfies the facets of its type.
  And the enforcement point itself shown exact: `xml_soft_attribute_value_exact`.
  Needs the repaired soft checks (switch `attrSoftChecked`: on /repo before the fix a required attribute could
  never be satisfied and no facet of an attribute was enforced) and the child-attribute loop gone (switch
  `childAttrsIgnored`: what it assigned to the parent was never validated).
-/
import Proofs.XmlAttrAccept
import Props.Facts08Good
import SpyneModel.Generated.Facts01
namespace SpyneModel.Props.C05xmlattrs
open SpyneModel SpyneModel.Xml SpyneModel.Generated

/-- IF: a conformant object is written as one element, accepted under soft validation, and arrives -/
theorem xml_soft_accepts_conformant_attrs (cfg : Cfg) (hv : cfg.validator = .soft) (I : IfaceA) (tns ns name : Text)
    (t : TyA) (ht : tyWfA t = true) (v : Val) (hok : okOneA true t v = true) (hfit : fitsV facts08 v = true) :
    ∃ e, encodeA facts08 tns ns name t v = [e] ∧ decodeA facts08 factsXml factsAttr cfg I t e = .ok (normOneA t v) := by
  have hs : cfg.soft = true := by simp [Cfg.soft, hv]
  exact Xml.xml_roundtrip_attrs
    { L := leafLaws08, hE := fun _ => by decide, hN := by decide, hLeak := by decide, hSoft := fun _ => by decide }
    I tns ns name t ht v (by rw [hs]; exact hok) hfit

/-- ONLY IF: whatever document arrives, a value delivered under soft validation satisfies every declared
    constraint, attribute and data members included -/
theorem xml_soft_accepted_conforms_attrs (cfg : Cfg) (hv : cfg.validator = .soft) (hP : cfg.parseXsiType = false)
    (I : IfaceA) (t : TyA) (ht : tyWfA t = true) (x : Node) (w : Val)
    (h : decodeA facts08 factsXml factsAttr cfg I t x = .ok w) : okOneA false t w = true :=
  fromElementA_acc
    { L := leafLaws08, hE := by decide, hs := by simp [Cfg.soft, hv], hP := hP, hA := by decide, hLeak := by decide }
    I t ht x w h

/-- the enforcement point: an attribute value / the text of an XmlData member is accepted iff the text is in
    the lexical space of the wrapped type and the value satisfies every declared facet; the value is
    delivered unchanged -/
theorem xml_soft_attribute_value_exact (cfg : Cfg) (hv : cfg.validator = .soft) (p : PrimTy) (s : Text) :
    modifierValue facts08 factsAttr cfg p s = leafSpec facts08 p s :=
  soft_modifier_exact leafLaws08 (by decide) cfg (by simp [Cfg.soft, hv]) p s

/-! ### non-vacuity -/
def exB : TyA := .obj "B".toList "urn:x".toList none
  [("id".toList, .attribute, .prim (.unicode 1 (some 2) none []) { minOccurs := 1 }),
   ("lang".toList, .attribute, .prim (.unicode 0 none none []) {})] {}
def soft : Cfg := { validator := .soft, parseXsiType := false }
example : tyWfA exB = true := by decide
/-- present and within the facets: accepted -/
example : decodeA facts08 factsXml factsAttr soft ⟨[], [], []⟩ exB
    (.elem [] "b".toList [("id".toList, "ab".toList)] none []) =
    .ok (.obj "B".toList [("id".toList, .str "ab".toList), ("lang".toList, .none)]) := by rfl
/-- too long for max_len=2: refused -/
example : decodeA facts08 factsXml factsAttr soft ⟨[], [], []⟩ exB
    (.elem [] "b".toList [("id".toList, "abc".toList)] none []) = .fault := by rfl
/-- required attribute missing: refused -/
example : decodeA facts08 factsXml factsAttr soft ⟨[], [], []⟩ exB
    (.elem [] "b".toList [("lang".toList, "en".toList)] none []) = .fault := by rfl

end SpyneModel.Props.C05xmlattrs
