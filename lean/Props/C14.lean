/-
  C14 — event hooks fire in documented order, exactly once, on success and failure.
  Property theorems only.  The pipeline theorems are about the model instantiated with the facts
  regenerated from /repo (`Generated.facts14`: the event sequence of every anchored function, measured);
  their side condition is the whole finite table, evaluated by the kernel (`trace_spec_table`).
  The listener algebra and the lifting to worlds are proved for all registration sequences.
-/
import Proofs.Events
import Proofs.EventsAutomaton
import Proofs.EventsViews
import Proofs.EventsReentrant
import SpyneModel.Generated.Facts14
namespace SpyneModel.Props.C14
open SpyneModel.Events SpyneModel.Generated

/-! ### listeners: registration order, exactly once, inheritance (every event name, every history) -/

/-- the listeners that run for an event are the first occurrences of the registrations for it, in order -/
theorem listeners_in_order_once {ν : Type} [DecidableEq ν] (regs : List (ν × H)) (e : ν) :
    (Mgr.build regs).fire e = firstOcc (regsFor regs e) :=
  build_get regs e

/-- a listener registered twice (or more) runs once -/
theorem listener_registered_twice_runs_once {ν : Type} [DecidableEq ν] (regs : List (ν × H)) (e : ν) (h : H) :
    ((Mgr.build regs).fire e).count h = if h ∈ regsFor regs e then 1 else 0 := by
  have hn : ((Mgr.build regs).fire e).Nodup := by
    rw [listeners_in_order_once]; exact firstOccFrom_nodup _ _
  rw [hn.count, listeners_in_order_once]
  simp [firstOcc, mem_firstOccFrom]

/-- listeners run in registration order: what runs is a subsequence of what was registered, with
    exactly the same members -/
theorem listeners_run_in_registration_order {ν : Type} [DecidableEq ν] (regs : List (ν × H)) (e : ν) :
    ((Mgr.build regs).fire e).Sublist (regsFor regs e) ∧
    ∀ h, h ∈ (Mgr.build regs).fire e ↔ h ∈ regsFor regs e := by
  rw [listeners_in_order_once]
  exact ⟨firstOccFrom_sublist _ _, fun h => by simp [firstOcc, mem_firstOccFrom]⟩

/-- registering more listeners later never removes or reorders the earlier ones -/
theorem later_registrations_keep_order {ν : Type} [DecidableEq ν] (regs more : List (ν × H)) (e : ν) :
    (Mgr.build regs).fire e <+: (Mgr.build (regs ++ more)).fire e := by
  simp only [listeners_in_order_once, regsFor, List.filter_append, List.map_append, firstOcc]
  rw [firstOccFrom_append]
  exact ⟨_, rfl⟩

/-- a service class starts with the listeners of all its bases: each of them, once, bases in order -/
theorem subclass_inherits {ν : Type} (bases : List (Mgr ν)) (e : ν) :
    (Mgr.inherit bases).fire e = firstOcc (bases.flatMap (fun b => b.fire e)) ∧
    ((Mgr.inherit bases).fire e).Nodup ∧
    ∀ b ∈ bases, ∀ h ∈ b.fire e, h ∈ (Mgr.inherit bases).fire e := by
  have h1 : (Mgr.inherit bases).fire e = firstOcc (bases.flatMap (fun b => b.fire e)) := inherit_get bases e
  refine ⟨h1, by rw [h1]; exact firstOccFrom_nodup _ _, ?_⟩
  intro b hb h hh
  rw [h1]
  simp only [firstOcc, mem_firstOccFrom, List.mem_flatMap]
  exact ⟨⟨b, hb, hh⟩, by simp⟩

/-- the subclass's own listeners run after the inherited ones -/
theorem subclass_own_listeners_after_inherited {ν : Type} [DecidableEq ν] (bases : List (Mgr ν))
    (regs : List (ν × H)) (e : ν) :
    ((Mgr.inherit bases).addAll regs).fire e = firstOcc (bases.flatMap (fun b => b.fire e) ++ regsFor regs e) ∧
    (Mgr.inherit bases).fire e <+: ((Mgr.inherit bases).addAll regs).fire e := by
  have h1 : (Mgr.inherit bases).fire e = firstOcc (bases.flatMap (fun b => b.fire e)) := inherit_get bases e
  have h2 : ((Mgr.inherit bases).addAll regs).fire e
      = osetAddAll ((Mgr.inherit bases).fire e) (regsFor regs e) := addAll_get _ _ _
  rw [h2, osetAddAll_eq, h1]
  refine ⟨?_, ⟨_, rfl⟩⟩
  simp only [firstOcc]
  rw [firstOccFrom_append]
  simp

/-! ### histories with removals (`del_listener` / `oset.discard`), every event name, every history -/

/-- after ANY history of add_listener / del_listener(event, handler) / del_listener(event) calls, what fires
    is the first occurrences of the net registrations, each once, and exactly the listeners with a net
    registration -/
theorem history_fires_net_registrations {ν : Type} [DecidableEq ν] (ops : List (Op ν)) (e : ν) :
    (Mgr.empty.applyAll ops).fire e = firstOcc (netRegs e [] ops) ∧
    ((Mgr.empty.applyAll ops).fire e).Nodup ∧
    ∀ h, h ∈ (Mgr.empty.applyAll ops).fire e ↔ h ∈ netRegs e [] ops := by
  have h1 : (Mgr.empty.applyAll ops).fire e = firstOcc (netRegs e [] ops) :=
    applyAll_get Mgr.empty ops e [] rfl
  refine ⟨h1, by rw [h1]; exact firstOccFrom_nodup _ _, fun h => ?_⟩
  rw [h1]; simp [firstOcc, mem_firstOccFrom]

/-- histories that interleave firings with add / del / clear: every firing calls exactly the first
    occurrences of the net registrations made before it (so a listener added after an event has already
    fired runs from the next firing on, and a removed one no longer does) -/
theorem every_firing_sees_current_registrations {ν : Type} [DecidableEq ν] (ops : List (Op ν)) :
    Mgr.empty.runHistory ops = specFires [] ops :=
  runHistory_spec [] ops

/-- the same for a service class: the history starts from the listeners inherited at class creation -/
theorem history_after_inheritance {ν : Type} [DecidableEq ν] (bases : List (Mgr ν)) (ops : List (Op ν)) (e : ν) :
    ((Mgr.inherit bases).applyAll ops).fire e
      = firstOcc (netRegs e (bases.flatMap (fun b => b.fire e)) ops) ∧
    (((Mgr.inherit bases).applyAll ops).fire e).Nodup := by
  have h1 := applyAll_get (Mgr.inherit bases) ops e (bases.flatMap (fun b => b.fire e)) (inherit_get bases e)
  exact ⟨h1, by rw [show ((Mgr.inherit bases).applyAll ops).fire e = _ from h1]; exact firstOccFrom_nodup _ _⟩

/-- removing a listener that is not registered changes nothing (Python raises KeyError), and a removal
    never touches another event -/
theorem removal_of_absent_is_noop {ν : Type} [DecidableEq ν] (m : Mgr ν) (e : ν) (h : H) :
    (h ∉ m.fire e → (m.delListener e h).fire e = m.fire e ∧ m.delRaises e h = true) ∧
    ∀ e', e' ≠ e → (m.delListener e h).fire e' = m.fire e' := by
  refine ⟨fun hn => ⟨?_, by simpa [Mgr.delRaises, Mgr.fire] using hn⟩, fun e' he => by simp [Mgr.fire, Mgr.delListener, he]⟩
  simp only [Mgr.fire, Mgr.delListener, osetDiscard, if_true]
  apply List.filter_eq_self.2
  intro a ha
  have : a ≠ h := fun c => hn (c ▸ ha)
  simp [this]

/-- a removed listener no longer fires; all the others still do, in the same relative order -/
theorem removed_listener_does_not_fire {ν : Type} [DecidableEq ν] (m : Mgr ν) (e : ν) (h : H) :
    h ∉ (m.delListener e h).fire e ∧ ((m.delListener e h).fire e).Sublist (m.fire e) ∧
    ∀ x, x ≠ h → (x ∈ (m.delListener e h).fire e ↔ x ∈ m.fire e) := by
  simp only [Mgr.fire, Mgr.delListener, osetDiscard, if_true]
  refine ⟨by simp, List.filter_sublist, fun x hx => by simp [hx]⟩

/-- registering a listener again after its removal puts it at the end -/
theorem readd_after_removal_appends_at_end {ν : Type} [DecidableEq ν] (m : Mgr ν) (e : ν) (h : H) :
    ((m.delListener e h).addListener e h).fire e = (m.fire e).filter (fun x => x != h) ++ [h] := by
  simp [Mgr.fire, Mgr.addListener, Mgr.delListener, osetDiscard, osetAdd]

/-! ### listeners that register / unregister listeners of the event while it fires -/

/-- Whatever the listeners add to or remove from the handler set during a firing (each at its first call): a
    listener that was registered before the firing and that nobody removes during it is called exactly once. -/
theorem reentrant_listener_called_once (prog : H → List ROp) (fuel : Nat) (s : List H) (h : H) (hs : s.Nodup)
    (hh : h ∈ s) (hnd : ∀ k, ROp.del h ∉ prog k) (hterm : (fireReentrant prog fuel s).next = none) :
    (fireReentrant prog fuel s).calls.count h = 1 :=
  reentrant_called_once prog fuel s h hs hh hnd hterm

/-- the walk of the model and the real EventManager agree on the witness scenarios that pin the semantics
    down (measured on /repo on every run) -/
theorem reentrant_semantics_measured :
    facts14.reentrantCalls = reentrantScenarios.map (fun sc => (fireReentrant (progOf sc.2) 50 sc.1).calls) := by
  decide

/-- one firing calls the reached listeners in order — application's manager, then the managers given to
    @rpc, then the service class's — and stops after the first one that raises; if none raises it calls
    every one of them -/
theorem fire_calls_in_order_until_raise (w : World) (src : Src) (ev : Event) :
    (∃ pre, pre <+: targets w src ev ∧ expand w (.fire src ev) = pre.map (mkObs ev)) ∧
    ((∀ p ∈ targets w src ev, w.raises p.2 ev = none) →
      expand w (.fire src ev) = (targets w src ev).map (mkObs ev)) :=
  ⟨expand_fire_prefix w src ev, expand_fire_quiet w src ev⟩

/-- firing raises exactly what the first raising listener among the reached ones raises -/
theorem fire_outcome_first_raiser (w : World) (ev : Event) (ts : List (Level × H)) :
    (runHandlers w.raises ev ts).2 =
      (ts.find? (fun p => (w.raises p.2 ev).isSome)).bind (fun p => w.raises p.2 ev) :=
  runHandlers_outcome w.raises ev ts

/-! ### the automaton is sound for the sentences of the property (EVERY trace) -/

theorem automaton_sound (t : List Sym) (u r f : Bool) (h : final t = .done u r f) :
    clauses t u r f = true :=
  clauses_of_final t u r f h

/-! ### the pipeline: all output protocols × transports × injected failures × listener outcomes -/

/-- the whole table, evaluated by the kernel on the facts measured on /repo -/
theorem trace_spec_table : allRows.all (rowOk facts14) = true := by decide +kernel

/-- Application.process_request fires the same events whatever the method declares to return: nothing,
    one value, several values, a bare output message -/
theorem proc_events_same_for_every_signature (sg : Sig) (pc : ProcCase) :
    facts14.proc sg pc = facts14.proc .single pc := by
  cases sg <;> cases pc <;> (try rename_i k; cases k) <;> rfl

/-- a call leaves the transport with an exception exactly when the return value cannot be serialised
    and the transport is the bare ServerBase call sequence; the WSGI transport never lets one escape -/
theorem escapes_exactly (c : Cfg) (inj : Inj) (co ro : Option ExcKind) :
    (run facts14 c inj co ro).escaped = ((truth inj co ro).serFail && c.transport == .serverBase) :=
  (run_row facts14 trace_spec_table proc_events_same_for_every_signature c inj co ro).1

theorem wsgi_never_escapes (o : OutProto) (sh : Shape) (sg : Sig) (pd : Bool) (inj : Inj) (co ro : Option ExcKind) :
    (run facts14 ⟨o, .wsgi, sh, sg, pd⟩ inj co ro).escaped = false := by
  rw [escapes_exactly]; simp

/-- the trace is accepted, in the state that records what really happened -/
theorem trace_spec (c : Cfg) (inj : Inj) (co ro : Option ExcKind)
    (h : (run facts14 c inj co ro).escaped = false) :
    final (methodView (run facts14 c inj co ro).steps)
      = .done (truth inj co ro).userRan (truth inj co ro).returned (truth inj co ro).faulted :=
  ((run_row facts14 trace_spec_table proc_events_same_for_every_signature c inj co ro).2.2 h).1

/-- method_context_created first, method_context_closed last, each exactly once -/
theorem created_first_closed_last_once (c : Cfg) (inj : Inj) (co ro : Option ExcKind)
    (h : (run facts14 c inj co ro).escaped = false) :
    (methodView (run facts14 c inj co ro).steps).head? = some (.ev .created) ∧
    (methodView (run facts14 c inj co ro).steps).getLast? = some (.ev .closed) ∧
    (methodView (run facts14 c inj co ro).steps).count (.ev .created) = 1 ∧
    (methodView (run facts14 c inj co ro).steps).count (.ev .closed) = 1 := by
  have := automaton_sound _ _ _ _ (trace_spec c inj co ro h)
  simp only [clauses, clCreatedClosed, Bool.and_eq_true, beq_iff_eq] at this
  exact ⟨this.1.1.1.1.1.1.1, this.1.1.1.1.1.1.2, this.1.1.1.1.1.2, this.1.1.1.1.2⟩

/-- the user function runs at most once, only after method_call, and exactly when nothing failed before it -/
theorem user_function_at_most_once_after_method_call (c : Cfg) (inj : Inj) (co ro : Option ExcKind)
    (h : (run facts14 c inj co ro).escaped = false) :
    (methodView (run facts14 c inj co ro).steps).count .user ≤ 1 ∧
    onlyAfter (.ev .call) .user (methodView (run facts14 c inj co ro).steps) = true ∧
    ((methodView (run facts14 c inj co ro).steps).contains .user = (truth inj co ro).userRan) := by
  have := automaton_sound _ _ _ _ (trace_spec c inj co ro h)
  simp only [clauses, clUser, Bool.and_eq_true, beq_iff_eq, decide_eq_true_eq] at this
  exact ⟨this.1.1.1.2.1.1.1, this.1.1.1.2.1.1.2, this.1.1.1.2.1.2⟩

/-- method_return_object fires exactly when the function returned normally (once, after the function) -/
theorem return_object_iff_returned_normally (c : Cfg) (inj : Inj) (co ro : Option ExcKind)
    (h : (run facts14 c inj co ro).escaped = false) :
    ((methodView (run facts14 c inj co ro).steps).contains (.ev .returnObject) = (truth inj co ro).returned) ∧
    (methodView (run facts14 c inj co ro).steps).count (.ev .returnObject) ≤ 1 ∧
    onlyAfter .user (.ev .returnObject) (methodView (run facts14 c inj co ro).steps) = true := by
  have := automaton_sound _ _ _ _ (trace_spec c inj co ro h)
  simp only [clauses, clReturnObject, Bool.and_eq_true, beq_iff_eq, decide_eq_true_eq] at this
  exact ⟨this.1.1.2.1.1, this.1.1.2.1.2, this.1.1.2.2⟩

/-- method_exception_object fires exactly when the call ends in a fault — whichever stage failed, with a
    Fault or with any other exception — and at most once.  (One documented variant: when the function raises
    a Redirect whose do_redirect() itself raises, the fault is announced by method_redirect_exception
    instead; never both.) -/
theorem exception_object_iff_fault (c : Cfg) (inj : Inj) (co ro : Option ExcKind)
    (h : (run facts14 c inj co ro).escaped = false) :
    (((methodView (run facts14 c inj co ro).steps).contains (.ev .exceptionObject) ||
      (methodView (run facts14 c inj co ro).steps).contains (.ev .redirectException)) = (truth inj co ro).faulted) ∧
    (methodView (run facts14 c inj co ro).steps).count (.ev .exceptionObject) +
      (methodView (run facts14 c inj co ro).steps).count (.ev .redirectException) ≤ 1 := by
  have := automaton_sound _ _ _ _ (trace_spec c inj co ro h)
  simp only [clauses, clExceptionObject, Bool.and_eq_true, beq_iff_eq, decide_eq_true_eq] at this
  exact ⟨this.1.2.1.1, this.1.2.1.2⟩

/-- a Redirect raised by the function is not a fault: method_redirect, then the return document and string
    events, no method_return_object and no method_exception_object -/
theorem redirect_is_not_a_fault (c : Cfg) (k : ExcKind) (b : Bool)
    (h : (run facts14 c ⟨.redirect, k, b⟩ none none).escaped = false) :
    final (methodView (run facts14 c ⟨.redirect, k, b⟩ none none).steps) = .done true false false :=
  trace_spec c ⟨.redirect, k, b⟩ none none h

/-- a ?wsdl request to the WSGI transport also opens and closes exactly one method context -/
theorem wsdl_request_created_closed :
    methodView facts14.wsdlSteps = [.ev .created, .ev .closed] ∧ transportView facts14.wsdlSteps = [.wsdl] ∧
    methodView facts14.wsdlFailSteps = [.ev .created, .ev .closed] ∧
    transportView facts14.wsdlFailSteps = [.wsdlException] := by
  decide

/-- ... followed by the matching document and string events in that order, then closed, and none of
    the events of the other outcome (commit-or-rollback listeners see exactly one of the two) -/
theorem document_and_string_events_follow (c : Cfg) (inj : Inj) (co ro : Option ExcKind)
    (h : (run facts14 c inj co ro).escaped = false) :
    clFollowedBy (methodView (run facts14 c inj co ro).steps) (truth inj co ro).faulted = true := by
  have := automaton_sound _ _ _ _ (trace_spec c inj co ro h)
  simp only [clauses, Bool.and_eq_true] at this
  exact this.2

/-- method_context_created / method_context_closed are never fired with a descriptor set -/
theorem created_closed_application_level_only (c : Cfg) (inj : Inj) (co ro : Option ExcKind) :
    Event.created ∉ descEvents (run facts14 c inj co ro).steps ∧
    Event.closed ∉ descEvents (run facts14 c inj co ro).steps := by
  have := (run_row facts14 trace_spec_table proc_events_same_for_every_signature c inj co ro).2.1
  simpa [descScopeOk] using this

/-- transport level (WSGI): wsgi_call, then wsgi_return or wsgi_exception according to the outcome,
    then wsgi_close; the bare ServerBase sequence fires nothing of its own -/
theorem transport_events (c : Cfg) (inj : Inj) (co ro : Option ExcKind)
    (h : (run facts14 c inj co ro).escaped = false) :
    transportOk c.transport (run facts14 c inj co ro).steps (truth inj co ro).faulted = true :=
  ((run_row facts14 trace_spec_table proc_events_same_for_every_signature c inj co ro).2.2 h).2

/-! ### lifting to worlds: arbitrary listeners registered on every manager -/

/-- A listener registered first on the application's manager (for every event) that never raises —
    whatever else is registered anywhere, whichever other listener raises on method_call or
    method_return_object — sees a trace that satisfies every sentence of the property. -/
theorem first_app_listener_sees_spec (c : Cfg) (inj : Inj) (w : World) (o : H)
    (hfirst : ∀ ev, ∃ rest, w.app ev = o :: rest ∧ o ∉ rest)
    (hquiet : ∀ ev, w.raises o ev = none)
    (hne : (worldRun facts14 c inj w).escaped = false) :
    symView o (trace facts14 c inj w) = methodView (worldRun facts14 c inj w).steps ∧
    final (symView o (trace facts14 c inj w))
      = .done (truth inj (callOutcome w) (retOutcome w)).userRan
              (truth inj (callOutcome w) (retOutcome w)).returned
              (truth inj (callOutcome w) (retOutcome w)).faulted ∧
    clauses (symView o (trace facts14 c inj w))
      (truth inj (callOutcome w) (retOutcome w)).userRan
      (truth inj (callOutcome w) (retOutcome w)).returned
      (truth inj (callOutcome w) (retOutcome w)).faulted = true := by
  have hv : symView o (trace facts14 c inj w) = methodView (worldRun facts14 c inj w).steps :=
    first_observer_view w o hfirst hquiet _
  have hf := trace_spec c inj (callOutcome w) (retOutcome w) hne
  refine ⟨hv, ?_, ?_⟩
  · rw [hv]; exact hf
  · rw [hv]; exact automaton_sound _ _ _ _ hf

/-- When no listener raises, every listener of every level sees exactly the events it registered for,
    each firing once, in pipeline order: application level all method-context events, method and
    service level those fired after dispatch. -/
theorem quiet_listener_views (c : Cfg) (inj : Inj) (w : World) (hq : ∀ h ev, w.raises h ev = none) (h : H) :
    ((∀ ev, (w.app ev).Nodup) →
      viewOf .app h (trace facts14 c inj w)
        = (ctxEvents (worldRun facts14 c inj w).steps).filter (fun ev => h ∈ w.app ev)) ∧
    ((∀ ev, (w.svc ev).Nodup) →
      viewOf .svc h (trace facts14 c inj w)
        = (descEvents (worldRun facts14 c inj w).steps).filter (fun ev => h ∈ w.svc ev)) ∧
    (∀ j m, w.meths[j]? = some m → (∀ ev, (m ev).Nodup) →
      viewOf (.meth j) h (trace facts14 c inj w)
        = (descEvents (worldRun facts14 c inj w).steps).filter (fun ev => h ∈ m ev)) :=
  ⟨fun hn => quiet_app_view w hq h hn _, fun hn => quiet_svc_view w hq h hn _,
   fun j m hj hn => quiet_meth_view w hq j m h hj hn _⟩

/-- whatever the listeners do, method- and service-level listeners never see method_context_created or
    method_context_closed -/
theorem lower_levels_never_see_created_closed (c : Cfg) (inj : Inj) (w : World) (lvl : Level) (h : H)
    (hl : lvl = .svc ∨ ∃ j, lvl = .meth j) :
    Event.created ∉ viewOf lvl h (trace facts14 c inj w) ∧ Event.closed ∉ viewOf lvl h (trace facts14 c inj w) := by
  have hd := created_closed_application_level_only c inj (callOutcome w) (retOutcome w)
  exact ⟨fun hm => hd.1 (viewOf_subset_desc w lvl h hl _ _ hm), fun hm => hd.2 (viewOf_subset_desc w lvl h hl _ _ hm)⟩

/-! ### the measured facts are necessary: the two repaired defects, as witnesses -/

/-- if the WSGI transport does not fire method_exception_object when serialising the return value fails
    (the pinned tree: D21), the property fails for that injection -/
theorem serialize_failure_needs_exception_object :
    rowOk { facts14 with wsgiSerFail := ⟨[], false⟩ } ⟨false, false, .wsgi, .serialize, .exc, none, none⟩ = false := by
  decide

/-- if an exception that is not a Fault escapes ServerBase.generate_contexts / get_in_object (the pinned
    tree), the context is never closed -/
theorem parse_escape_breaks_closed :
    rowOk { facts14 with genCtx := fun _ => ⟨[], true⟩ } ⟨false, false, .wsgi, .createInDoc, .exc, none, none⟩ = false ∧
    rowOk { facts14 with getIn := fun _ => ⟨[], true⟩ } ⟨false, false, .wsgi, .deserialize, .exc, none, none⟩ = false := by
  decide

/-- the string event must not depend on whether the output protocol produced any bytes: a
    finalize_context that skips it when ctx.out_string is None breaks the property for a method without a
    return value served by HttpRpc -/
theorem string_event_needed_when_out_string_is_none :
    rowOk { facts14 with fin := fun fault none =>
              if none then (if fault then [.exceptionDocument] else [.returnDocument]) else facts14.fin fault none }
      ⟨true, false, .wsgi, .none, .fault, none, none⟩ = false := by
  decide

/-- an EventManager given to @rpc reaches the method's descriptor under each of the four keywords
    (`_evmgr`, `_evmgrs`, `_event_manager`, `_event_managers`), so the world's method-level managers are heard -/
theorem decorator_keywords_reach_descriptor (sp : Spelling) (ms : List (Mgr Event)) :
    descriptorManagers facts14 sp ms = ms := by
  cases sp <;> rfl

/-- the service class given to `@mrpc(_service_class=S)` is heard like the service class of an @rpc method -/
theorem mrpc_service_class_manager_reaches_descriptor (svc : Mgr Event) :
    descriptorService facts14 true svc = svc := rfl

/-- when user code or a listener has pre-set ctx.out_document (a cached response), get_out_string still fires
    the document and string events of finalize_context: the table (which uses `fin`) covers these calls -/
theorem preset_document_still_finalized : facts14.getOutStringPreset = facts14.fin false false := by
  decide

/-! ### non-vacuity -/

-- a registration history with duplicates, two events
example : (Mgr.build [(1, 7), (2, 9), (1, 8), (1, 7), (1, 5), (1, 8)]).fire 1 = [7, 8, 5] := by decide
example : (Mgr.inherit [Mgr.build [(1, 7), (1, 8)], Mgr.build [(1, 8), (1, 3)]]).fire 1 = [7, 8, 3] := by decide
-- removal of the head, then re-registration: B, A — and A once
example : (Mgr.empty.applyAll [Op.add 1 7, .add 1 8, .add 1 7, .del 1 7]).fire 1 = [8] := by decide
example : (Mgr.empty.applyAll [Op.add 1 7, .add 1 8, .del 1 7, .add 1 7, .del 1 9, .add 2 3]).fire 1 = [8, 7] := by decide
example : (Mgr.empty.applyAll [Op.add 1 7, .add 1 8, .clear 1, .add 1 8]).fire 1 = [8] := by decide
-- a method without a return value over HttpRpc: the output protocol leaves out_string None, all events still fire
example : facts14.leavesNone .httpRpc .void = true := by decide
example : methodView (run facts14 ⟨.httpRpc, .wsgi, .void, .void, false⟩ ⟨.none, .fault, false⟩ none none).steps
    = [.ev .created, .ev .call, .user, .ev .returnObject, .ev .returnDocument, .ev .returnString, .ev .closed] := by decide
-- A registered, E fired, B registered, E fired again, A removed, E fired
example : Mgr.empty.runHistory [Op.add 1 7, .fire 1, .add 1 8, .fire 1, .del 1 7, .fire 1, .fire 2] = [[7], [7, 8], [8], []] := by decide
-- a one-shot listener and a listener that installs its successor: everybody registered before still runs once
example : (fireReentrant (progOf [(1, [.del 1]), (2, [.add 4])]) 20 [1, 2, 3]).calls = [1, 2, 3, 4] := by decide
example : (fireReentrant (progOf [(1, [.del 1]), (2, [.add 4])]) 20 [1, 2, 3]).next = none := by decide
-- the table is not empty, the automaton accepts seven traces
example : allRows.length = 1728 := by decide +kernel
example : (lang 9 .start).length = 7 := by decide +kernel
-- runs that do not escape exist for every kind of failure; one that escapes exists
example : (run facts14 ⟨.soap11, .wsgi, .value, .single, false⟩ ⟨.serialize, .exc, true⟩ none none).escaped = false := by decide
example : (run facts14 ⟨.soap11, .serverBase, .value, .single, false⟩ ⟨.serialize, .exc, true⟩ none none).escaped = true := by decide
example : methodView (run facts14 ⟨.json, .wsgi, .value, .single, false⟩ ⟨.none, .fault, false⟩ none (some .exc)).steps
    = [.ev .created, .ev .call, .user, .ev .returnObject, .ev .exceptionObject, .ev .exceptionDocument,
       .ev .exceptionString, .ev .closed] := by decide
-- a world that satisfies the hypotheses of `first_app_listener_sees_spec`, with a raising listener
def exampleWorld : World where
  app := fun _ => [0, 4]
  meths := [fun ev => if ev = .call then [5, 6] else []]
  svc := fun _ => [7]
  inProt := fun _ => [1]
  outProt := fun _ => [2]
  transport := fun _ => [3]
  raises := fun h ev => if h = 6 ∧ ev = .call then some .exc else none
example : callOutcome exampleWorld = some .exc := by decide
example : (∀ ev, ∃ rest, exampleWorld.app ev = 0 :: rest ∧ 0 ∉ rest) ∧ (∀ ev, exampleWorld.raises 0 ev = none) :=
  ⟨fun _ => ⟨[4], rfl, by decide⟩, fun ev => by simp [exampleWorld]⟩
example : viewOf (.meth 0) 6 (trace facts14 ⟨.xml, .wsgi, .value, .single, false⟩ ⟨.none, .fault, false⟩ exampleWorld) = [.call] := by decide
example : viewOf .svc 7 (trace facts14 ⟨.xml, .wsgi, .value, .single, false⟩ ⟨.none, .fault, false⟩ exampleWorld)
    = [.exceptionObject, .exceptionDocument, .exceptionString] := by decide

end SpyneModel.Props.C14
