/-
  C16 (XML / SOAP part) — inheritance and polymorphism preserve the runtime class.
  A `Val.obj cls fields` is an instance of class `cls`; the declared type names class `cname`. Class
  definitions carry their FLAT member list (ancestors first — `get_flat_type_info`; the harness checks
  on every generated class tree that the list spyne reports is the parent's list followed by the own
  members). `okOneX I true s t v`: `v` conforms to `t` where an instance of a registered descendant of
  the declared class conforms with that class's members.
-/
import Proofs.XmlServer
import Proofs.XmlBridge
import Props.Facts08Good
import SpyneModel.Generated.Facts01
namespace SpyneModel.Props.C16xml
open SpyneModel SpyneModel.Xml SpyneModel.Generated

/-- polymorphic protocol: instances of subclasses (anywhere in the value: members, array items,
    repeated members) are transmitted with all their fields and come back as the same class with
    equal field values (validators None / lxml) -/
theorem poly_roundtrip (cfg : Cfg) (hpoly : cfg.polymorphic = true) (hv : cfg.validator ≠ .soft)
    (hP : cfg.parseXsiType = true) (I : Iface) (hI : ifaceWf I = true) (ns name : Text) (t : Ty)
    (ht : tyWf t = true) (v : Val) (hc : okOneX I true false t v = true) (hf : fitsV facts08 v = true) :
    ∃ e, encode facts08 cfg I ns name t v = [e] ∧
      decode facts08 factsXml cfg I t e = .ok (normOneX I t v) := by
  have hs : cfg.soft = false := by
    cases h : cfg.validator <;> simp_all [Cfg.soft]
  have C : RtCtx facts08 factsXml cfg I :=
    { L := leafLaws08, hE := by simp [hs], hN := by decide, hP := hP, hI := hI }
  exact one_rt C ns name t ht v (by rw [hpoly, hs]; exact hc) hf

/-- the same under soft validation (needs the repaired `unicode_from_element`) -/
theorem poly_roundtrip_soft (cfg : Cfg) (hpoly : cfg.polymorphic = true) (hv : cfg.validator = .soft)
    (hP : cfg.parseXsiType = true) (I : Iface) (hI : ifaceWf I = true) (ns name : Text) (t : Ty)
    (ht : tyWf t = true) (v : Val) (hc : okOneX I true true t v = true) (hf : fitsV facts08 v = true) :
    ∃ e, encode facts08 cfg I ns name t v = [e] ∧
      decode facts08 factsXml cfg I t e = .ok (normOneX I t v) := by
  have hs : cfg.soft = true := by simp [Cfg.soft, hv]
  have C : RtCtx facts08 factsXml cfg I :=
    { L := leafLaws08, hE := fun _ => by decide, hN := by decide, hP := hP, hI := hI }
  exact one_rt C ns name t ht v (by rw [hpoly, hs]; exact hc) hf

/-- the class survives: what comes back for an instance of a registered subclass `cls` is an instance
    of `cls` carrying that class's members -/
theorem poly_keeps_class (I : Iface) (cname cns : Text) (cb : Option Text) (fields : List (Text × Ty)) (o : Occ)
    (cls : Text) (vs : List (Text × Val)) (c : ClassDef) (hne : cls ≠ cname)
    (hf : I.classes.find? cls = some c) :
    normOneX I (.obj cname cns cb fields o) (.obj cls vs) = .obj cls (normFieldsX I c.fields vs) := by
  simp [normOneX, hne, hf]

/-- the type marker: a subclass instance is written with `xsi:type` = the class key of ITS class, and
    that key resolves (through `interface.classes`) to that very class -/
theorem xsi_type_marks_runtime_class (cfg : Cfg) (hpoly : cfg.polymorphic = true) (I : Iface)
    (hI : ifaceWf I = true) (ns name cname cns : Text) (cb : Option Text) (fields : List (Text × Ty)) (o : Occ)
    (cls : Text) (vs : List (Text × Val)) (c : ClassDef) (hne : cls ≠ cname) (hsub : I.isSub cls cname = true)
    (hf : I.classes.find? cls = some c) :
    encode facts08 cfg I ns name (.obj cname cns cb fields o) (.obj cls vs) =
      [.elem ns name [(xsiTypeKey, clark c.ns c.name)] none (membersToParent facts08 cfg I c.ns c.fields vs)] ∧
    I.lookup (clark c.ns c.name) = some (ClassDef.toTy c) ∧ c.name = cls := by
  obtain ⟨hcn, hcm⟩ := find?_name hf
  refine ⟨?_, ?_, hcn⟩
  · have hpt : polyTarget cfg I cname cls = some c := by simp [polyTarget, hpoly, hne, hsub, hf]
    simp [encode, toParent, hpt]
  · unfold Iface.lookup
    rw [find?_key_of_mem (fun c => clark c.ns c.name) I.classes c (ifaceWf_keys hI) hcm]

/-- polymorphism disabled: exactly the declared class's members are transmitted, without a type
    marker, whatever the runtime class of the instance -/
theorem nonpoly_declared_fields_only (cfg : Cfg) (hpoly : cfg.polymorphic = false) (I : Iface)
    (ns name cname cns : Text) (cb : Option Text) (fields : List (Text × Ty)) (o : Occ)
    (cls : Text) (vs : List (Text × Val)) :
    encode facts08 cfg I ns name (.obj cname cns cb fields o) (.obj cls vs) =
      [.elem ns name [] none (membersToParent facts08 cfg I cns fields vs)] ∧
    ∀ e ∈ membersToParent facts08 cfg I cns fields vs, e.name ∈ fieldNames fields := by
  refine ⟨?_, members_names facts08 cfg I cns fields vs⟩
  have hpt : polyTarget cfg I cname cls = none := by simp [polyTarget, hpoly]
  simp [encode, toParent, hpt]

/-- members are written in the order of the flat member list (ancestors' members first): the output
    for a member list is the output for its first member followed by the output for the rest, and all
    elements written for a member carry its name -/
theorem members_in_declared_order (cfg : Cfg) (I : Iface) (cns k : Text) (t : Ty) (v : Val)
    (fs : List (Text × Ty)) (vs : List (Text × Val)) :
    membersToParent facts08 cfg I cns ((k, t) :: fs) ((k, v) :: vs) =
      memberNodes facts08 cfg I cns k t v ++ membersToParent facts08 cfg I cns fs vs ∧
    ∀ e ∈ memberNodes facts08 cfg I cns k t v, e.name = k :=
  ⟨membersToParent_cons facts08 cfg I cns k t v fs vs,
   fun e he => (memberNodes_nodeOk facts08 cfg I cns k t v e he).1⟩

/-- both emission paths — building `ctx.out_document` and writing incrementally to `ctx.out_stream` —
    produce the same element tree (switch `streamSameTree`, measured with a witness and compared with the
    model on every XmlDocument response in T2), so everything above holds for streamed output too -/
theorem stream_emission_same_tree (cfg : Cfg) (I : Iface) (ns name : Text) (t : Ty) (v : Val) :
    encodeStream facts08 factsXml cfg I ns name t v = encode facts08 cfg I ns name t v := by
  have h : factsXml.streamSameTree = true := by decide
  simp [encodeStream, h]

/-- streamed polymorphic output carries the type marker and is read back as the same subclass -/
theorem poly_roundtrip_stream (cfg : Cfg) (hpoly : cfg.polymorphic = true) (hv : cfg.validator ≠ .soft)
    (hP : cfg.parseXsiType = true) (I : Iface) (hI : ifaceWf I = true) (ns name : Text) (t : Ty)
    (ht : tyWf t = true) (v : Val) (hc : okOneX I true false t v = true) (hf : fitsV facts08 v = true) :
    ∃ e, encodeStream facts08 factsXml cfg I ns name t v = [e] ∧
      decode facts08 factsXml cfg I t e = .ok (normOneX I t v) := by
  rw [stream_emission_same_tree]
  exact poly_roundtrip cfg hpoly hv hP I hI ns name t ht v hc hf

/-! ### non-vacuity -/

def exBase : ClassDef := ⟨"B".toList, "urn:x".toList, none, [("x".toList, .prim .boolean {})]⟩
def exSub : ClassDef := ⟨"S".toList, "urn:x".toList, some "B".toList, [("x".toList, .prim .boolean {}), ("y".toList, .prim (.integer .i8 {}) {})]⟩
def exI : Iface := { classes := [exBase, exSub], tns := "urn:x".toList }
def exArr : Ty := .arr "B".toList (ClassDef.toTy exBase) {}
def exVal : Val := .list [.obj "B".toList [("x".toList, .bool true)],
  .obj "S".toList [("x".toList, .bool false), ("y".toList, .int 5)]]

example : ifaceWf exI = true := by decide
example : tyWf exArr = true := by decide
example : okOneX exI true true exArr exVal = true := by rfl
example : normOneX exI exArr exVal = exVal := by rfl

end SpyneModel.Props.C16xml
