/-
  C04 (XML / SOAP part) — user code only ever receives values of the declared types.
  `hasTyOne I t v`: `v` is None, a native value of the declared primitive kind, an instance of the
  declared class (with the declared members) or of a registered class that descends from it (with
  that class's members), or a list of such — recursively (SpyneModel/XmlSpec.lean).
  The theorems hold for EVERY document tree and every validator setting (None included: the
  xsi:type clause of the property), given the repaired xsi:type check (switch `xsiTypeCheck`).
-/
import Proofs.XmlServer
import Props.Facts08Good
import SpyneModel.Generated.Facts01
namespace SpyneModel.Props.C04xml
open SpyneModel SpyneModel.Xml SpyneModel.Generated

/-- whatever `from_element` returns has the declared type -/
theorem xml_decode_sound (cfg : Cfg) (I : Iface) (hI : ifaceWf I = true) (t : Ty) (x : Node) (v : Val)
    (h : decode facts08 factsXml cfg I t x = .ok v) : hasTyOne I t v = true :=
  fromElement_sound leafLaws08 (by decide) cfg hI t x v h

/-- XmlDocument server: the in-object handed to the user function has the in-message type of the
    method it is dispatched to -/
theorem xml_server_decode_sound (cfg : Cfg) (I : Iface) (hI : ifaceWf I = true) (ms : Soap.Methods) (doc : Node)
    (k : Text) (v : Val) (h : Soap.xmlServerDecode facts08 factsXml cfg I ms doc = .ok (k, v)) :
    ∃ t, ms.lookup k = some t ∧ hasTyOne I t v = true :=
  xmlServerDecode_sound leafLaws08 (by decide) cfg hI ms doc k v h

/-- Soap11 / Soap12 server -/
theorem soap_server_decode_sound (cfg : Cfg) (I : Iface) (hI : ifaceWf I = true) (ver : Soap.Version)
    (ms : Soap.Methods) (doc : Node) (k : Text) (v : Val)
    (h : Soap.soapServerDecode facts08 factsXml factsSoap cfg I ver ms doc = .ok (k, v)) :
    ∃ t, ms.lookup k = some t ∧ hasTyOne I t v = true :=
  soapServerDecode_sound leafLaws08 (by decide) factsSoap cfg hI ver ms doc k v h

/-- a request that would need a substitution is answered with a validation fault: an `xsi:type` that
    resolves to a registered type which is not the declared one or derived from it is rejected -/
theorem retag_rejected (I : Iface) (t nt : Ty) (key : Text) (hl : I.lookup key = some nt)
    (hbad : (match t, nt with
             | .obj dn _ _ _ _, .obj nn _ _ _ _ => I.isSub nn dn
             | .prim p _, .prim p' _ => primSubClass p' p
             | .arr _ _ _, .arr _ _ _ => true
             | _, _ => false) = false) :
    resolveXsi factsXml I t key = none := by
  have hX : factsXml.xsiTypeCheck = true := by decide
  unfold resolveXsi
  rw [hl]
  simp only [hX, if_true]
  cases t <;> cases nt <;> simp_all

/-- … and `from_element` turns that into a Client.ValidationError fault (any validator) -/
theorem retag_fault (cfg : Cfg) (hP : cfg.parseXsiType = true) (I : Iface) (t : Ty) (ns name : Text)
    (attrs : List (Text × Text)) (text : Option Text) (children : List Node) (key : Text)
    (hnil : isNil factsXml attrs = false) (hk : attrs.lookup xsiTypeKey = some key)
    (hr : resolveXsi factsXml I t key = none) :
    decode facts08 factsXml cfg I t (.elem ns name attrs text children) = .fault := by
  simp [decode, fromElement, hnil, hP, hk, hr]

/-- an unknown class key is rejected as well -/
theorem unknown_xsi_type_fault (I : Iface) (t : Ty) (key : Text) (hl : I.lookup key = none) :
    resolveXsi factsXml I t key = none := by
  simp [resolveXsi, hl]

/-! ### non-vacuity: a legitimate subclass retag is accepted and yields the subclass -/

def exBase : ClassDef := ⟨"B".toList, "urn:x".toList, none, [("x".toList, .prim .boolean {})]⟩
def exSub : ClassDef := ⟨"S".toList, "urn:x".toList, some "B".toList, [("x".toList, .prim .boolean {}), ("y".toList, .prim .boolean {})]⟩
def exOther : ClassDef := ⟨"O".toList, "urn:x".toList, none, [("z".toList, .prim .boolean {})]⟩
def exI : Iface := ⟨[exBase, exSub, exOther],
  [(clark "http://www.w3.org/2001/XMLSchema".toList "string".toList, .prim (.unicode 0 none none []) {})], "urn:x".toList⟩

example : ifaceWf exI = true := by decide
example : resolveXsi factsXml exI (ClassDef.toTy exBase) (clark exSub.ns exSub.name) = some (ClassDef.toTy exSub) := by
  rfl
example : resolveXsi factsXml exI (ClassDef.toTy exBase) (clark exOther.ns exOther.name) = none := by
  rfl
example : resolveXsi factsXml exI (.prim .date {})
    (clark "http://www.w3.org/2001/XMLSchema".toList "string".toList) = none := by rfl
example : hasTyOne exI (ClassDef.toTy exBase) (.obj "S".toList [("x".toList, .bool true), ("y".toList, .none)]) = true := by
  rfl

end SpyneModel.Props.C04xml
