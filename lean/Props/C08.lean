/-
  C08 — primitive text forms are lossless and lie in the XSD lexical space.
  Property theorems only; every theorem is about the model instantiated with the facts
  regenerated from /repo (`Generated.facts08`), side conditions discharged by `decide`.
-/
import Proofs.Prim
import Proofs.Binary
import SpyneModel.Generated.Facts08
namespace SpyneModel.Props.C08
open SpyneModel SpyneModel.Generated

/-! ### integers -/

/-- every integer whose canonical text fits the length guard is read back exactly -/
theorem int_roundtrip_unbounded (i : Int)
    (h : (intToText i).length ≤ facts08.intMaxStrLen .unbounded) :
    intFromText facts08 .unbounded (intToText i) = .ok i :=
  intFromText_intToText facts08 .unbounded i h

/-- every value of every fixed-width integer type is read back exactly
    (the length guard `max_str_len` of /repo leaves room for every canonical literal) -/
theorem int_roundtrip_bounded (k : IntKind) (lo hi i : Int)
    (hlo : k.lo = some lo) (hhi : k.hi = some hi) (h1 : lo ≤ i) (h2 : i ≤ hi) :
    intFromText facts08 k (intToText i) = .ok i := by
  have hlen := intText_length_bounded k i lo hi hlo hhi h1 h2
  have hmsl : k.needLen ≤ facts08.intMaxStrLen k := by cases k <;> decide
  exact intFromText_intToText facts08 k i (Nat.le_trans hlen hmsl)

example : intFromText facts08 .i8 (intToText (-128)) = .ok (-128) := by decide +kernel
example : intFromText facts08 .u8 (intToText 255) = .ok 255 := by decide +kernel

/-! ### booleans -/

theorem bool_roundtrip (b : Bool) : boolFromText facts08 (boolToText b) = .ok b := by
  cases b <;> decide

/-- the four literals of xs:boolean are read as their values -/
theorem bool_literals :
    boolFromText facts08 "true".toList = .ok true ∧ boolFromText facts08 "1".toList = .ok true ∧
    boolFromText facts08 "false".toList = .ok false ∧ boolFromText facts08 "0".toList = .ok false := by
  decide

/-- text that is not a boolean literal is rejected, not coerced -/
theorem bool_nonliteral_rejected (s : Text)
    (h1 : s.map asciiLower ≠ "true".toList) (h2 : s.map asciiLower ≠ "1".toList)
    (h3 : s.map asciiLower ≠ "false".toList) (h4 : s.map asciiLower ≠ "0".toList) :
    boolFromText facts08 s = .fault := by
  simp only [boolFromText, h1, h2, h3, h4, facts08, decide_false, Bool.or_self, Bool.false_eq_true, if_false]

/-! ### UTC offsets -/

/-- all offsets a datetime can carry (a fortiori the 1681 offsets of XSD) survive the text form -/
theorem offset_roundtrip (m : Int) (h1 : -1440 < m) (h2 : m < 1440) (rest : Text) :
    parseOffset facts08 (fmtOffset m ++ rest) = some (m, rest) :=
  parseOffset_fmtOffset facts08 (by decide) m (by omega) rest

/-- every `[+-]HH:MM` literal is read as sign·(60·HH + MM) -/
theorem offset_literal (neg : Bool) (hh mm : Nat) :
    offsetValue facts08 neg hh mm = (if neg then -((60 * hh + mm : Nat) : Int) else ((60 * hh + mm : Nat) : Int)) := by
  simp [offsetValue, facts08]; split <;> omega

example : parseOffset facts08 "-04:49".toList = some (-289, []) := by decide

/-! ### dates, times, datetimes -/

theorem date_roundtrip (x : Date) (h : x.valid = true) : dateFromText facts08 (isoDate x) = .ok x :=
  dateFromText_isoDate facts08 x h

theorem time_roundtrip (t : Time) (h : t.valid = true) : timeFromText facts08 (isoTime t) = .ok t :=
  timeFromText_isoTime facts08 t h

/-- any calendar date 0001..9999, any time of day to the microsecond, naive or with any
    whole-minute UTC offset strictly inside ±24 h -/
theorem datetime_roundtrip (x : DateTime) (h : x.valid = true) :
    dateTimeFromText facts08 (isoDateTime x) = .ok x :=
  dateTimeFromText_isoDateTime facts08 (by decide) x h

example : (DateTime.mk ⟨2024, 2, 29⟩ ⟨23, 59, 59, 5⟩ (some (-289))).valid = true := by decide
example : isoDateTime (DateTime.mk ⟨2024, 2, 29⟩ ⟨23, 59, 59, 5⟩ (some (-289))) = "2024-02-29T23:59:59.000005-04:49".toList := by decide

/-! ### durations -/

/-- every `timedelta` (min … max) survives, to the microsecond -/
theorem duration_roundtrip (us : Int) (hlo : -86399999913600000000 ≤ us) (hhi : us ≤ 86399999999999999999) :
    durFromText facts08 (durToText facts08 us) = .ok us :=
  durFromText_durToText facts08 (by decide) (by decide) us hlo hhi

example : durToText facts08 5 = "PT0.000005S".toList := by decide +kernel
example : durFromText facts08 "-P1DT0.5S".toList = .ok (-86400500000) := by decide +kernel

/-! ### binary encodings (ByteArray) -/

theorem hex_roundtrip (bs : List Nat) (h : bytesOk bs) : hexdec (hexenc bs) = some bs := hexdec_hexenc bs h

theorem base64_roundtrip (bs : List Nat) (h : bytesOk bs) : b64dec false (b64enc false bs) = some bs :=
  b64dec_b64enc false bs h

theorem urlsafe_base64_roundtrip (bs : List Nat) (h : bytesOk bs) : b64dec true (b64enc true bs) = some bs :=
  b64dec_b64enc true bs h

/-- what is written for a hex / base64 ByteArray is a literal of xs:hexBinary / xs:base64Binary -/
theorem hex_in_lexical_space (bs : List Nat) (h : bytesOk bs) : xsdHexBinary (hexenc bs) = true :=
  xsdHexBinary_hexenc bs h

theorem base64_in_lexical_space (bs : List Nat) (h : bytesOk bs) : xsdBase64Binary (b64enc false bs) = true :=
  xsdBase64Binary_b64enc bs h

example : b64enc false [97, 98, 99, 100] = "YWJjZA==".toList := by decide
example : bytesOk [97, 98, 99, 100] := by unfold bytesOk; decide

end SpyneModel.Props.C08
