import SpyneModel.Prim
import SpyneModel.Generated.Facts08
namespace SpyneModel.Props.C08
open SpyneModel SpyneModel.Generated

theorem bool_roundtrip (b : Bool) : boolFromText facts08 (boolToText b) = .ok b := by
  cases b <;> decide

end SpyneModel.Props.C08
