/-
  C01, continued — request fidelity over the HISTORY of a class tree and over renamed members
  (SpyneModel/XmlHistory.lean; facts `factsHist`: `appendClearsMemo`, `altNamesInherited`; statements and proofs in
  Props/C16_history.lean). The decoder (`complex_from_element`) walks `get_flat_type_info` — the member table — and
  `_type_info_alt` — the wire-name table; what a schema-valid request carries for an appended or a renamed ancestor
  member reaches the function only if both tables are current and complete.
-/
import Props.C16_history
namespace SpyneModel.Props.C01history
open SpyneModel SpyneModel.Xml SpyneModel.Generated SpyneModel.Props.C16history

/-- after `append_field` every class decodes with the member list of the declarations as they are now … -/
theorem request_decoded_with_current_members (s : TreeState) (c f d : Text) :
    (s.appendField factsHist c f).flatInfo d = (s.appendField factsHist c f).fresh d :=
  flat_info_after_append s c f d

/-- … which contains the appended member -/
theorem appended_member_is_decoded (s : TreeState) (c f : Text) (k : ClassDecl)
    (hk : s.decls.find? (fun k => k.name = c) = some k) : f ∈ (s.appendField factsHist c f).flatInfo c :=
  decoder_member_table_knows_appended_member s c f k hk

/-- an ancestor's renamed member is found under its wire name when a subclass instance is rebuilt -/
theorem renamed_ancestor_member_is_decoded (d : List AltDecl) (n : Nat) (c : Text) (k : AltDecl) (b : Text)
    (hk : d.find? (fun k => k.name = c) = some k) (hb : k.base = some b) (w m : Text)
    (h : (w, m) ∈ altTable factsHist d n b) : (w, m) ∈ altTable factsHist d (n + 1) c :=
  ancestor_wire_names_known_to_subclass d n c k b hk hb w m h

end SpyneModel.Props.C01history
