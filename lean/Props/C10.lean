/-
  C10 — hostile or malformed requests end in a client fault, never a crash.

  The request funnel above the codecs (SpyneModel/Hostile.lean): transport decision table, charset decoding and
  third-party parser (oracles), create_in_document, generate_contexts / get_in_object / process_request of
  ServerBase, handle_rpc / handle_error of WsgiApplication.  Every `try/except` catches exactly the classes that T1
  extracted from the current source (`facts10`); the side conditions are decided by the kernel on the regenerated
  facts.  The codecs enter through their own no-crash theorems (Props/C10_xml.lean, Props/C10_hier.lean).
  Property theorems and non-vacuity examples only.
-/
import Proofs.Hostile
import Proofs.Prim2
import Props.C10_xml
import Props.C10_hier
import SpyneModel.Generated.Facts10
import SpyneModel.Generated.Facts08x
namespace SpyneModel.Props.C10
open SpyneModel SpyneModel.Hostile SpyneModel.Generated

/-! ### what the extracted facts have to be -/

/-- the `try` statements of generate_contexts, get_in_object, process_request and of handle_rpc around get_out_string
    understand every clause and end in `except Exception` -/
theorem facts10_catch_alls : total facts10.genContexts = true ∧ total facts10.getInObject = true ∧
    total facts10.processRequest = true ∧ total facts10.wsgiOutString = true := by decide

/-- `except Fault as e` comes first in generate_contexts and get_in_object and keeps the fault as the answer -/
theorem facts10_faults_kept : keeps facts10.genContexts = true ∧ keeps facts10.getInObject = true := by decide

/-- the measured transport table is complete; no row lets an exception out of the callable; a row that answers
    before the document is looked at answers with a Client-family fault, with 4xx unless the family is SOAP -/
theorem facts10_table : facts10.preTable.length = PreKey.count ∧ tableOk facts10 = true := by decide +kernel

/-- non-vacuity: the table has rows that answer early -/
example : ∃ k c s, facts10.pre k = .reject c s :=
  ⟨⟨.soap, .get, .proper, .exact⟩, "Client.RequestNotAllowed", 405, by decide +kernel⟩

/-- every class the charset decoding or the parser library raises for input it rejects is turned into a
    Client.* fault by create_in_document — for every input protocol, also on the retry path -/
theorem facts10_rejections : rejectionsAreClient facts10 = true := by decide +kernel

theorem facts10_status : plainIs4xx facts10 = true ∧ facts10.okStatus = 200 := by decide

/-! ### the funnel -/

/-- `funnel_total`, ServerBase: whatever the bytes are (whatever the decoder / parser / retry raise or return),
    whatever the codec stages and the user function do, no exception escapes generate_contexts, get_in_object or
    get_out_object: the outcome is a normal response or a fault document. -/
theorem funnel_total (q : Req) (ho : q.Ordinary) (r : Raised) : runBase facts10 q ≠ .escape r :=
  runBase_no_escape facts10 facts10_catch_alls.1 facts10_catch_alls.2.1 facts10_catch_alls.2.2.1 q ho r

/-- an exception class nobody has heard of, in the deserialiser: a Server fault, not an escape -/
def weird : Exc := ⟨"Weird", ["Weird", "Exception", "BaseException", "object"]⟩
example : runBase facts10 { proto := .xml, parse := .doc, dispatch := .ok, deser := .crash weird } = .fault "Server" 0 := by
  decide

/-- `funnel_total`, WsgiApplication: for every transport class (request method x CONTENT_TYPE x CONTENT_LENGTH x
    protocol family) and every request, the callable answers with a status and a document. -/
theorem funnel_total_wsgi (k : PreKey) (hav : facts10.pre k ≠ .unavailable) (q : Req) (ho : q.Ordinary) :
    (∃ s n, runWsgi facts10 k q = .ok s n) ∨ (∃ c s n, runWsgi facts10 k q = .fault c s n) :=
  runWsgi_total facts10 facts10_catch_alls.1 facts10_catch_alls.2.1 facts10_catch_alls.2.2.1 facts10_catch_alls.2.2.2
    facts10_table.2 k hav q ho

/-- `malformed_is_client_fault`, parser side: when the charset decoding or the parser rejects the bytes with any of
    the classes of its library (and the retry, where there is one, does not succeed), the answer is a Client.* fault
    and the user function is not called. -/
theorem malformed_is_client_fault (q : Req) (h1 : q.parse ∈ rejections facts10 q.proto)
    (h2 : q.reparse ∈ retryOutcomes facts10 q.proto) :
    createInDocument facts10 q = none ∨ ∃ c, runBase facts10 q = .fault c 0 ∧ isClient c = true := by
  rcases cid_of_rejectionsAreClient facts10 facts10_rejections q.proto q.parse q.reparse h1 h2 with h | ⟨c, h, hc⟩
  · exact Or.inl h
  · exact Or.inr ⟨c, runBase_rejected facts10 facts10_faults_kept.1 q c h, hc⟩

/-! non-vacuity of `malformed_is_client_fault` -/
def jsonSyntax : Exc := ⟨"JSONDecodeError", ["JSONDecodeError", "ValueError", "Exception", "BaseException", "object"]⟩

/-- the hypotheses of `malformed_is_client_fault` are met by a JSON syntax error; the answer is a Client fault -/
example : ParseResult.parseExc jsonSyntax ∈ rejections facts10 .json ∧ ParseResult.doc ∈ retryOutcomes facts10 .json := by
  decide +kernel
example : ∃ c, runBase facts10 { proto := .json, parse := .parseExc jsonSyntax, dispatch := .ok, deser := .ok } = .fault c 0 ∧
    isClient c = true := by
  rcases malformed_is_client_fault { proto := .json, parse := .parseExc jsonSyntax, dispatch := .ok, deser := .ok }
    (by decide +kernel) (by decide +kernel) with h | h
  · exact absurd h (by decide +kernel)
  · exact h

/-- `malformed_is_client_fault`, codec side: the fault a codec stage raises (envelope, dispatch, deserialisation:
    Client.SoapError, Client.ResourceNotFound, Client.ValidationError …) is the answer, with its own code, and the user
    function is not called. -/
theorem codec_fault_is_the_answer (q : Req) (c : String) (hdoc : createInDocument facts10 q = none)
    (h : q.dispatch = .fault c ∨ (q.dispatch = .ok ∧ q.deser = .fault c)) : runBase facts10 q = .fault c 0 := by
  rcases h with h | ⟨hd, h⟩
  · exact runBase_dispatch_fault facts10 facts10_faults_kept.1 q c hdoc h
  · exact runBase_deser_fault facts10 facts10_faults_kept.2 q c hdoc hd h

/-- a transport class that is answered before the document is looked at (wrong method or no content type for SOAP,
    CONTENT_LENGTH that is not a number or above the limit, multipart without boundary …) is answered with a
    Client-family fault; over HTTP for non-SOAP protocols with 4xx -/
theorem transport_reject_is_client (k : PreKey) (c : String) (s : Nat) (h : facts10.pre k = .reject c s) :
    isClient c = true ∧ (k.fam ≠ .soap → 400 ≤ s ∧ s < 500) := by
  have := rowOk_of_tableOk facts10 facts10_table.2 k
  rw [h] at this
  simp only [rowOk, Bool.and_eq_true, Bool.or_eq_true, beq_iff_eq, decide_eq_true_eq] at this
  refine ⟨this.1, fun hs => ?_⟩
  rcases this.2 with h2 | h2
  · exact absurd h2 hs
  · exact h2

/-- over HTTP a Client fault of a non-SOAP protocol is sent with 4xx -/
theorem malformed_is_4xx (k : PreKey) (q : Req) (c : String) (n : Nat) (hpre : facts10.pre k = .proceed)
    (hf : runBase facts10 q = .fault c n) (hc : isClient c = true) (hs : q.proto.soap = false) :
    ∃ s, runWsgi facts10 k q = .fault c s n ∧ 400 ≤ s ∧ s < 500 := by
  refine ⟨facts10.statusPlain (faultClass c), ?_, statusPlain_4xx facts10 facts10_status.1 _ (faultClass_ne_server hc)⟩
  simp [runWsgi, hpre, hf, statusOf, hs]

/-- `fault_means_not_called`: a request that is answered with a fault although the user function does not raise has
    not run the user function (ServerBase and WSGI) -/
theorem fault_means_not_called (q : Req) (hu : q.user = .returns) (c : String) (n : Nat)
    (h : runBase facts10 q = .fault c n) : n = 0 :=
  runBase_fault_not_called facts10 q hu c n h

theorem fault_means_not_called_wsgi (k : PreKey) (q : Req) (hu : q.user = .returns) (hser : q.serExc = none)
    (c : String) (s n : Nat) (h : runWsgi facts10 k q = .fault c s n) : n = 0 := by
  unfold runWsgi at h
  cases hpre : facts10.pre k with
  | escape e => simp [hpre] at h
  | unavailable => simp [hpre] at h
  | reject c' s' => simp [hpre] at h; exact h.2.2.symm
  | proceed =>
    simp only [hpre] at h
    cases hb : runBase facts10 q with
    | escape r => simp [hb] at h
    | fault c' n' =>
      simp only [hb, WResult.fault.injEq] at h
      rw [← h.2.2]
      exact runBase_fault_not_called facts10 q hu c' n' hb
    | ok n' => simp [hb, hser] at h

/-- `valid_request_called_once`: a request that parses, dispatches and deserialises runs the user function exactly
    once and is answered normally (200 over HTTP) -/
theorem valid_request_called_once (q : Req) (hdoc : createInDocument facts10 q = none) (hd : q.dispatch = .ok)
    (hs : q.deser = .ok) (hu : q.user = .returns) :
    runBase facts10 q = .ok 1 ∧
    ∀ k, facts10.pre k = .proceed → q.serExc = none → runWsgi facts10 k q = .ok 200 1 := by
  have hb := runBase_valid facts10 q hdoc hd hs hu
  refine ⟨hb, fun k hk hser => ?_⟩
  simp [runWsgi, hk, hb, hser, facts10_status.2]

/-- and a normal answer always means exactly one call -/
theorem normal_answer_means_one_call (q : Req) (n : Nat) (h : runBase facts10 q = .ok n) : n = 1 :=
  runBase_ok_called_once facts10 q n h

/-! ### with the codec models in place of the codec oracle -/

/-- the outcome of a codec model as the funnel's oracle (`fault` of the models is a Client.* fault) -/
def codecOf {α : Type} : Outcome α → Codec
  | .ok _ => .ok
  | .fault => .fault "Client.ValidationError"
  | .crash e => .crash ⟨e, [e, "Exception", "BaseException", "object"]⟩

def codecOfRes {α : Type} : Hier.Res α → Codec
  | .ok _ _ => .ok
  | .fault => .fault "Client.ValidationError"
  | .crash e => .crash ⟨e, [e, "Exception", "BaseException", "object"]⟩

/-- a request whose codec stage does not crash is answered normally after one call, or with that Client fault
    after none -/
theorem answered_or_client_fault (q : Req) (hdoc : createInDocument facts10 q = none) (hd : q.dispatch = .ok)
    (hu : q.user = .returns) (hc : ∀ e, q.deser ≠ .crash e) :
    runBase facts10 q = .ok 1 ∨ ∃ c, q.deser = .fault c ∧ runBase facts10 q = .fault c 0 := by
  cases hs : q.deser with
  | ok => exact Or.inl (runBase_valid facts10 q hdoc hd hs hu)
  | fault c => exact Or.inr ⟨c, rfl, runBase_deser_fault facts10 facts10_faults_kept.2 q c hdoc hd hs⟩
  | crash e => exact absurd hs (hc e)

/-- XmlDocument, for EVERY document tree the parser can deliver, every interface, method table and configuration:
    one call and a normal answer, or a Client fault and no call — never a Server fault, never an escaping exception -/
theorem xml_request_called_or_client_fault (cfg : Xml.Cfg) (I : Xml.Iface) (ms : Soap.Methods) (doc : Xml.Node) :
    let q : Req := { proto := .xml, parse := .doc, dispatch := .ok,
                     deser := codecOf (Soap.xmlServerDecode facts08 factsXml cfg I ms doc) }
    runBase facts10 q = .ok 1 ∨ runBase facts10 q = .fault "Client.ValidationError" 0 := by
  intro q
  have hdoc : createInDocument facts10 q = none := rfl
  have hc : ∀ e, q.deser ≠ .crash e := by
    intro e h
    cases hx : Soap.xmlServerDecode facts08 factsXml cfg I ms doc with
    | ok v => simp [q, codecOf, hx] at h
    | fault => simp [q, codecOf, hx] at h
    | crash e' => exact absurd hx (C10xml.xml_server_no_crash cfg I ms doc e')
  rcases answered_or_client_fault q hdoc rfl rfl hc with h | ⟨c, hcd, h⟩
  · exact Or.inl h
  · refine Or.inr ?_
    cases hx : Soap.xmlServerDecode facts08 factsXml cfg I ms doc with
    | ok v => simp [q, codecOf, hx] at hcd
    | fault => simp only [q, codecOf, hx, Codec.fault.injEq] at hcd; subst hcd; exact h
    | crash e' => exact absurd hx (C10xml.xml_server_no_crash cfg I ms doc e')

/-- Soap11 / Soap12, the same for every document tree -/
theorem soap_request_called_or_client_fault (cfg : Xml.Cfg) (I : Xml.Iface) (ver : Soap.Version) (ms : Soap.Methods)
    (doc : Xml.Node) (p : Proto) (_hp : p = .soap11 ∨ p = .soap12) :
    let q : Req := { proto := p, parse := .doc, dispatch := .ok,
                     deser := codecOf (Soap.soapServerDecode facts08 factsXml factsSoap cfg I ver ms doc) }
    runBase facts10 q = .ok 1 ∨ runBase facts10 q = .fault "Client.ValidationError" 0 := by
  intro q
  have hdoc : createInDocument facts10 q = none := rfl
  have hc : ∀ e, q.deser ≠ .crash e := by
    intro e h
    cases hx : Soap.soapServerDecode facts08 factsXml factsSoap cfg I ver ms doc with
    | ok v => simp [q, codecOf, hx] at h
    | fault => simp [q, codecOf, hx] at h
    | crash e' => exact absurd hx (C10xml.soap_server_no_crash cfg I ver ms doc e')
  rcases answered_or_client_fault q hdoc rfl rfl hc with h | ⟨c, hcd, h⟩
  · exact Or.inl h
  · refine Or.inr ?_
    cases hx : Soap.soapServerDecode facts08 factsXml factsSoap cfg I ver ms doc with
    | ok v => simp [q, codecOf, hx] at hcd
    | fault => simp only [q, codecOf, hx, Codec.fault.injEq] at hcd; subst hcd; exact h
    | crash e' => exact absurd hx (C10xml.soap_server_no_crash cfg I ver ms doc e')

/-- JsonDocument / YamlDocument / MessagePackDocument / MessagePackRpc: for every configuration, registry, signature and
    whatever the parser returns (a document of any shape, its syntax error, any other class) -/
theorem dict_request_called_or_client_fault (cfg : Hier.Cfg) (R : Registry) (hR : Hier.regWf R)
    (name ns : Text) (base : Option Text) (fields : Hier.Fields) (o : Occ)
    (hwf : Hier.wfTy (.obj name ns base fields o) = true) (pd : Hier.Parsed) (p : Proto) :
    let q : Req := { proto := p, parse := .doc, dispatch := .ok,
                     deser := codecOfRes (Hier.serverRun facts08 facts02 cfg R (.obj name ns base fields o) pd) }
    runBase facts10 q = .ok 1 ∨ runBase facts10 q = .fault "Client.ValidationError" 0 := by
  intro q
  have hdoc : createInDocument facts10 q = none := rfl
  have hc : ∀ e, q.deser ≠ .crash e := by
    intro e h
    cases hx : Hier.serverRun facts08 facts02 cfg R (.obj name ns base fields o) pd with
    | ok v l => simp [q, codecOfRes, hx] at h
    | fault => simp [q, codecOfRes, hx] at h
    | crash e' => exact absurd hx (C10hier.hier_server_no_crash cfg R hR name ns base fields o hwf pd e')
  rcases answered_or_client_fault q hdoc rfl rfl hc with h | ⟨c, hcd, h⟩
  · exact Or.inl h
  · refine Or.inr ?_
    cases hx : Hier.serverRun facts08 facts02 cfg R (.obj name ns base fields o) pd with
    | ok v l => simp [q, codecOfRes, hx] at hcd
    | fault => simp only [q, codecOfRes, hx, Codec.fault.injEq] at hcd; subst hcd; exact h
    | crash e' => exact absurd hx (C10hier.hier_server_no_crash cfg R hR name ns base fields o hwf pd e')

/-! ### SOAP envelopes -/

/-- every measured envelope shape — Header absent / empty / one / two declared entries / an undeclared entry / text only,
    Body absent / empty / text / comment / two children / a child of another namespace / a Fault element / a valid call,
    Envelope in the protocol's namespace, in that of the other SOAP version, in neither; Soap11 and Soap12 — is dispatched or
    refused with a Client fault -/
theorem facts10_envelopes : envTableOk facts10 = true := by decide +kernel

/-- with the measured row as the dispatch stage: one call and a normal answer, or a Client fault and no call — never a Server
    fault, never an escaping exception, whatever the Header holds when the Body holds no request -/
theorem soap_envelope_called_or_client_fault (k : EnvKey) :
    let q : Req := { proto := if k.soap12 then .soap12 else .soap11, parse := .doc, dispatch := (facts10.env k).codec, deser := .ok }
    runBase facts10 q = .ok 1 ∨ ∃ c, runBase facts10 q = .fault c 0 ∧ isClient c = true := by
  intro q
  have hdoc : createInDocument facts10 q = none := rfl
  have hg := env_good facts10 facts10_envelopes k
  cases hd : facts10.env k with
  | called => exact Or.inl (runBase_valid facts10 q hdoc (by simp [q, hd, EnvDecision.codec]) rfl rfl)
  | clientFault c =>
    refine Or.inr ⟨c, runBase_dispatch_fault facts10 facts10_faults_kept.1 q c hdoc (by simp [q, hd, EnvDecision.codec]), ?_⟩
    rw [hd] at hg; exact hg
  | serverFault c => rw [hd] at hg; simp [EnvDecision.good] at hg
  | escape e => rw [hd] at hg; simp [EnvDecision.good] at hg

/-- non-vacuity: a Header with an entry and an empty Body is a row of the table, and it is a Client fault -/
example : ∃ c, facts10.env ⟨false, .own, .one, .empty⟩ = .clientFault c := ⟨"Client.SoapError", by decide +kernel⟩
example : facts10.env ⟨true, .own, .two, .valid⟩ = .called := by decide +kernel

/-! ### SOAP multi-references and the url of the request -/

/-- every measured `id` / `href` shape of a Soap11 / Soap12 request — a reference that resolves, to a missing id, empty, in a
    cycle of two, into itself, at the method element, duplicate ids, a long chain — is served or refused with a Client fault -/
theorem facts10_hrefs : hrefTableOk facts10 = true := by decide +kernel

theorem soap_multiref_called_or_client_fault (k : HrefKey) :
    let q : Req := { proto := if k.soap12 then .soap12 else .soap11, parse := .doc, dispatch := (facts10.href k).codec, deser := .ok }
    runBase facts10 q = .ok 1 ∨ ∃ c, runBase facts10 q = .fault c 0 ∧ isClient c = true := by
  intro q
  have hdoc : createInDocument facts10 q = none := rfl
  have hg := href_good facts10 facts10_hrefs k
  cases hd : facts10.href k with
  | called => exact Or.inl (runBase_valid facts10 q hdoc (by simp [q, hd, EnvDecision.codec]) rfl rfl)
  | clientFault c =>
    refine Or.inr ⟨c, runBase_dispatch_fault facts10 facts10_faults_kept.1 q c hdoc (by simp [q, hd, EnvDecision.codec]), ?_⟩
    rw [hd] at hg; exact hg
  | serverFault c => rw [hd] at hg; simp [EnvDecision.good] at hg
  | escape e => rw [hd] at hg; simp [EnvDecision.good] at hg

/-- SCRIPT_NAME {empty, "/", "//x", a name} x PATH_INFO {empty, "/", a name} x HTTP_HOST {absent, host, host:port, junk} x
    {http, https}, per protocol family: reconstructing the url never lets an exception out -/
theorem facts10_urls : urlTableOk facts10 = true := by decide +kernel

/-- `funnel_total` for the callable including its first step -/
theorem funnel_total_wsgi_url (u : UrlKey) (k : PreKey) (hav : facts10.pre k ≠ .unavailable) (q : Req) (ho : q.Ordinary) :
    (∃ s n, runWsgiUrl facts10 u k q = .ok s n) ∨ (∃ c s n, runWsgiUrl facts10 u k q = .fault c s n) := by
  have hu := url_ok facts10 facts10_urls u
  unfold runWsgiUrl
  cases hd : facts10.url u with
  | proceed => exact funnel_total_wsgi k hav q ho
  | reject c s => exact Or.inr ⟨c, s, 0, rfl⟩
  | escape n => rw [hd] at hu; simp [urlRowOk] at hu
  | unavailable => rw [hd] at hu; simp [urlRowOk] at hu

example : facts10.url ⟨.plain, .slash, .empty, .absent, false⟩ = .proceed := by decide +kernel
example : ∃ d, facts10.href ⟨false, .cycle⟩ = d ∧ d.good = true := ⟨_, rfl, href_good facts10 facts10_hrefs _⟩

/-! ### the fault document is always written -/

/-- for every output protocol, through ServerBase and WsgiApplication, whatever characters the text of the fault quotes from the
    request (control characters, NUL, lone surrogates, characters outside the BMP, noncharacters): the fault document is written,
    no exception leaves get_out_string / handle_error (measured per row by raising such a fault at the deserialisation stage) -/
theorem facts10_fault_documents : faultDocTableOk facts10 = true := by decide +kernel

theorem fault_document_always_written (k : FaultDocKey) : facts10.faultDoc k = .proceed :=
  faultDoc_written facts10 facts10_fault_documents k

/-! ### the leaf parsers -/

/-- the leaf parsers of the shared vocabulary (integers, booleans, strings, date, time, dateTime, duration, the three
    byte-array encodings, enumerations): a value or a ValidationError for EVERY text -/
theorem shared_leaf_never_crashes (p : PrimTy) (s : Text) (e : String) : leafFromText facts08 p s ≠ .crash e :=
  leafLaws08.nocrash p s e

/-- Decimal: the length guard and `Decimal(text)` with InvalidOperation caught -/
theorem decimal_leaf_never_crashes (s : Text) (e : String) : decFromText facts08x s ≠ .crash e := by
  unfold decFromText
  repeat' (first | split | (dsimp only; split))
  all_goals (intro h; cases h)

/-- Uuid -/
theorem uuid_leaf_never_crashes (s : Text) (e : String) : uuidFromText s ≠ .crash e := by
  unfold uuidFromText
  repeat' (first | split | (dsimp only; split))
  all_goals (intro h; cases h)

/-- Double, for any behaviour of CPython's numeric-literal parser -/
theorem double_leaf_never_crashes {α : Type} (parseF : Text → Option (Dbl α)) (s : Text) (e : String) :
    doubleFromText parseF s ≠ .crash e := by
  unfold doubleFromText
  repeat' split
  all_goals (intro h; cases h)

/-- DateTime with `as_timezone`: also the conversion that leaves the years 1..9999 is a ValidationError -/
theorem datetime_as_timezone_never_crashes (asTz : Option Int) (s : Text) (e : String) :
    dateTimeFromTextC facts08 facts08x asTz s ≠ .crash e := by
  have hG : facts08x.asTzOverflowIsFault = true := by decide
  have hbase : ∀ e', dateTimeFromText facts08 s ≠ .crash e' := by
    intro e' h
    have := leafLaws08.nocrash .dateTime s e'
    simp [leafFromText, Outcome.map, h] at this
  unfold dateTimeFromTextC
  cases hd : dateTimeFromText facts08 s with
  | fault => simp
  | crash e' => exact absurd hd (hbase e')
  | ok x =>
    cases asTz with
    | none => simp
    | some o =>
      cases htz : x.tz with
      | none => simp [htz]
      | some m =>
        simp only [htz, hG, if_true]
        cases ha : astimezone false x o <;> simp

/-! ### non-vacuity of the `Ordinary` hypothesis -/

example : (Req.Ordinary { proto := .json, parse := .parseExc jsonSyntax, dispatch := .ok, deser := .ok }) :=
  ⟨by show "Exception" ∈ jsonSyntax.mro; decide, trivial, trivial, trivial, trivial, by intro e h; cases h⟩


end SpyneModel.Props.C10
