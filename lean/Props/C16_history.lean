/-
  C16, continued — "a subclass instance carries its ancestors' fields followed by its own" also after the
  class tree changed: `append_field` / `insert_field` on an ancestor of classes that were already in use.
  `TreeState` (SpyneModel/XmlHistory.lean) = the declarations plus the memo of `get_flat_type_info`, the
  parents-first member list that XmlDocument / Soap (and every other protocol) walk and that the harness reads
  back as the `Iface` of Props/C16_xml.lean. Measured: `appendClearsMemo` (T1 witness: Mid(Base) used, then
  `Base.append_field('late', …)`, then `Mid.get_flat_type_info(Mid)`).
-/
import SpyneModel.XmlHistory
import SpyneModel.Generated.Facts01
namespace SpyneModel.Props.C16history
open SpyneModel SpyneModel.Xml SpyneModel.Generated

/-- after `append_field` on ANY class, EVERY class — the class itself, its descendants at any depth, classes
    that were used before or not — walks the parents-first member list of the declarations as they are now -/
theorem flat_info_after_append (s : TreeState) (c f d : Text) :
    (s.appendField factsHist c f).flatInfo d = (s.appendField factsHist c f).fresh d := by
  have h : factsHist.appendClearsMemo = true := by decide
  simp [TreeState.flatInfo, TreeState.appendField, h, List.lookup]

theorem flat_info_after_insert (s : TreeState) (c : Text) (i : Nat) (f d : Text) :
    (s.insertField factsHist c i f).flatInfo d = (s.insertField factsHist c i f).fresh d := by
  have h : factsHist.appendClearsMemo = true := by decide
  simp [TreeState.flatInfo, TreeState.insertField, h, List.lookup]

/-- using classes in between changes nothing -/
theorem use_keeps_flat_info (s : TreeState) (c d : Text) (h : ∀ e l, s.memo.lookup e = some l → l = s.fresh e) :
    (s.use c).flatInfo d = s.fresh d := by
  unfold TreeState.use
  cases hc : s.memo.lookup c with
  | some l =>
    simp only [TreeState.flatInfo]
    cases hd : s.memo.lookup d with
    | some l' => exact h d l' hd
    | none => rfl
  | none =>
    simp only [TreeState.flatInfo, List.lookup, TreeState.fresh]
    cases hb : (d == c) with
    | true => simp only [beq_iff_eq] at hb; subst hb; rfl
    | false =>
      simp only
      cases hd : s.memo.lookup d with
      | some l' => exact h d l' hd
      | none => rfl

theorem find_map_name (g : ClassDecl → ClassDecl) (hg : ∀ k, (g k).name = k.name) (c : Text) : (l : List ClassDecl) →
    (l.map g).find? (fun k => k.name = c) = (l.find? (fun k => k.name = c)).map g
  | [] => rfl
  | k :: l => by
    simp only [List.map, List.find?, hg]
    cases decide (k.name = c) with
    | true => rfl
    | false => exact find_map_name g hg c l

/-- the decoder's member table of the class itself: after `c.append_field(f)` it contains `f`, however often the
    class was used (instantiated, serialised, its flat type info read) before -/
theorem decoder_member_table_knows_appended_member (s : TreeState) (c f : Text) (k : ClassDecl)
    (hk : s.decls.find? (fun k => k.name = c) = some k) :
    f ∈ (s.appendField factsHist c f).flatInfo c := by
  rw [flat_info_after_append]
  unfold TreeState.fresh TreeState.appendField
  simp only [List.length_map]
  have hlen : s.decls.length ≠ 0 := by
    intro h
    have : s.decls = [] := List.eq_nil_of_length_eq_zero h
    rw [this] at hk; cases hk
  obtain ⟨n, hn⟩ := Nat.exists_eq_succ_of_ne_zero hlen
  rw [hn]
  unfold flatOf
  rw [find_map_name _ (by intro k; by_cases h : k.name = c <;> simp [h]) c s.decls, hk]
  have hkc : k.name = c := by
    have := List.find?_some hk
    simpa using this
  simp [hkc]

/-- renamed members (sub_name / sub_ns): the wire-name table of a class contains every entry of its base —
    so the decoder finds an ancestor's renamed member when it rebuilds a subclass instance, declared or named by
    xsi:type, at any depth -/
theorem ancestor_wire_names_known_to_subclass (d : List AltDecl) (n : Nat) (c : Text) (k : AltDecl) (b : Text)
    (hk : d.find? (fun k => k.name = c) = some k) (hb : k.base = some b) (w m : Text)
    (h : (w, m) ∈ altTable factsHist d n b) : (w, m) ∈ altTable factsHist d (n + 1) c := by
  have hH : factsHist.altNamesInherited = true := by decide
  simp only [altTable, hk, hb, hH, if_true, List.mem_append]
  exact Or.inl h

/-- and its own -/
theorem own_wire_names_known (d : List AltDecl) (n : Nat) (c : Text) (k : AltDecl)
    (hk : d.find? (fun k => k.name = c) = some k) (w m : Text) (h : (w, m) ∈ k.alts) :
    (w, m) ∈ altTable factsHist d (n + 1) c := by
  simp only [altTable, hk, List.mem_append]
  exact Or.inr h

/-! ### non-vacuity: Base <- Mid <- Leaf, all in use, then `Base.append_field("late")` -/
def ex0 : TreeState := { decls := [⟨"Base".toList, none, ["a".toList]⟩, ⟨"Mid".toList, some "Base".toList, ["m".toList]⟩,
  ⟨"Leaf".toList, some "Mid".toList, ["l".toList]⟩] }
def warm : TreeState := ((ex0.use "Base".toList).use "Mid".toList).use "Leaf".toList
example : (warm.appendField factsHist "Base".toList "late".toList).flatInfo "Leaf".toList =
    ["a".toList, "late".toList, "m".toList, "l".toList] := by decide
/-- with only the class's own memo entry dropped the subclasses keep their old member list -/
example : (warm.appendField ⟨false, true, true⟩ "Base".toList "late".toList).flatInfo "Leaf".toList =
    ["a".toList, "m".toList, "l".toList] := by decide
example : (warm.appendField ⟨false, true, true⟩ "Base".toList "late".toList).flatInfo "Base".toList =
    ["a".toList, "late".toList] := by decide

def altEx : List AltDecl := [⟨"Base".toList, none, [("Renamed".toList, "r".toList)]⟩, ⟨"Mid".toList, some "Base".toList, []⟩,
  ⟨"Leaf".toList, some "Mid".toList, []⟩]
example : altTable factsHist altEx 3 "Leaf".toList = [("Renamed".toList, "r".toList)] := by decide
example : altTable ⟨true, false, true⟩ altEx 3 "Leaf".toList = [] := by decide

end SpyneModel.Props.C16history
