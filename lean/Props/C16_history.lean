/-
  C16, continued — "a subclass instance carries its ancestors' fields followed by its own" also after the
  class tree changed: `append_field` / `insert_field` on an ancestor of classes that were already in use.
  `TreeState` (SpyneModel/XmlHistory.lean) = the declarations plus the memo of `get_flat_type_info`, the
  parents-first member list that XmlDocument / Soap (and every other protocol) walk and that the harness reads
  back as the `Iface` of Props/C16_xml.lean. Measured: `appendClearsMemo` (T1 witness: Mid(Base) used, then
  `Base.append_field('late', …)`, then `Mid.get_flat_type_info(Mid)`).
-/
import SpyneModel.XmlHistory
import SpyneModel.Generated.Facts01
namespace SpyneModel.Props.C16history
open SpyneModel SpyneModel.Xml SpyneModel.Generated

/-- after `append_field` on ANY class, EVERY class — the class itself, its descendants at any depth, classes
    that were used before or not — walks the parents-first member list of the declarations as they are now -/
theorem flat_info_after_append (s : TreeState) (c f d : Text) :
    (s.appendField factsHist c f).flatInfo d = (s.appendField factsHist c f).fresh d := by
  have h : factsHist.appendClearsMemo = true := by decide
  simp [TreeState.flatInfo, TreeState.appendField, h, List.lookup]

theorem flat_info_after_insert (s : TreeState) (c : Text) (i : Nat) (f d : Text) :
    (s.insertField factsHist c i f).flatInfo d = (s.insertField factsHist c i f).fresh d := by
  have h : factsHist.appendClearsMemo = true := by decide
  simp [TreeState.flatInfo, TreeState.insertField, h, List.lookup]

/-- using classes in between changes nothing -/
theorem use_keeps_flat_info (s : TreeState) (c d : Text) (h : ∀ e l, s.memo.lookup e = some l → l = s.fresh e) :
    (s.use c).flatInfo d = s.fresh d := by
  unfold TreeState.use
  cases hc : s.memo.lookup c with
  | some l =>
    simp only [TreeState.flatInfo]
    cases hd : s.memo.lookup d with
    | some l' => exact h d l' hd
    | none => rfl
  | none =>
    simp only [TreeState.flatInfo, List.lookup, TreeState.fresh]
    cases hb : (d == c) with
    | true => simp only [beq_iff_eq] at hb; subst hb; rfl
    | false =>
      simp only
      cases hd : s.memo.lookup d with
      | some l' => exact h d l' hd
      | none => rfl

/-! ### non-vacuity: Base <- Mid <- Leaf, all in use, then `Base.append_field("late")` -/
def ex0 : TreeState := { decls := [⟨"Base".toList, none, ["a".toList]⟩, ⟨"Mid".toList, some "Base".toList, ["m".toList]⟩,
  ⟨"Leaf".toList, some "Mid".toList, ["l".toList]⟩] }
def warm : TreeState := ((ex0.use "Base".toList).use "Mid".toList).use "Leaf".toList
example : (warm.appendField factsHist "Base".toList "late".toList).flatInfo "Leaf".toList =
    ["a".toList, "late".toList, "m".toList, "l".toList] := by decide
/-- with only the class's own memo entry dropped the subclasses keep their old member list -/
example : (warm.appendField ⟨false⟩ "Base".toList "late".toList).flatInfo "Leaf".toList =
    ["a".toList, "m".toList, "l".toList] := by decide
example : (warm.appendField ⟨false⟩ "Base".toList "late".toList).flatInfo "Base".toList =
    ["a".toList, "late".toList] := by decide

end SpyneModel.Props.C16history
