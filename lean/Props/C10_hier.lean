/-
  C10 (dict-document part) — hostile or malformed requests end in a client fault, never a crash.
  Property theorems only, for the facts regenerated from /repo.
-/
import Proofs.HierSafe
import Props.Facts08Good
import SpyneModel.Generated.Facts02
namespace SpyneModel.Props.C10hier
open SpyneModel SpyneModel.Hier SpyneModel.Generated SpyneModel.Props

/-- a request without a body is a client fault -/
theorem facts02_body : facts02.missingBodyFault = true := by decide

theorem facts02_good : facts02.Good :=
  ⟨by decide, by decide, by decide, by decide, by decide, by decide, by decide, by decide, by decide, by decide,
   by decide, by decide, by decide, by decide, by decide⟩

/-- D17 and friends: bytes the parser cannot decode and MessagePack-RPC envelopes the server cannot serve are client faults -/
theorem facts02_parse : facts02.parseErrorsFault = true := by decide

/-- For EVERY document `d` — whatever kinds of nodes stand where the declared type expects others — decoding ends in
    a value or a Client.ValidationError; no other exception escapes. Every protocol of the family, validator None
    and soft, both wrapper modes. -/
theorem hier_decode_no_crash (cfg : Cfg) (R : Registry) (hR : regWf R) (t : Ty) (hwf : wfTy t = true) (d : Doc)
    (e : String) : decode facts08 facts02 cfg R t d ≠ .crash e := by
  intro h
  have := decode_safe R leafLaws08 facts02_good hR (cfg := cfg) d t hwf
  rw [h] at this
  exact this

/-- The same for a whole request document (method-name envelope, body lookup, the call): never a crash, never the
    Server fault of a function called without its arguments. -/
theorem hier_request_no_crash (cfg : Cfg) (R : Registry) (hR : regWf R)
    (name ns : Text) (base : Option Text) (fields : Fields) (o : Occ)
    (hwf : wfTy (.obj name ns base fields o) = true) (d : Doc) (e : String) :
    decodeRequest facts08 facts02 cfg R (.obj name ns base fields o) d ≠ .crash e := by
  intro h
  have := decodeRequest_safe R leafLaws08 facts02_good facts02_body hR (cfg := cfg) name ns base fields o hwf d
  rw [h] at this
  exact this

/-- A request that is answered with a fault has not run the user function; one that ran it was decoded completely:
    the outcome of a request is exactly one of "called with arguments" or "client fault". -/
theorem hier_request_called_or_client_fault (cfg : Cfg) (R : Registry) (hR : regWf R)
    (name ns : Text) (base : Option Text) (fields : Fields) (o : Occ)
    (hwf : wfTy (.obj name ns base fields o) = true) (d : Doc) :
    (∃ v l, decodeRequest facts08 facts02 cfg R (.obj name ns base fields o) d = .ok v l) ∨
    decodeRequest facts08 facts02 cfg R (.obj name ns base fields o) d = .fault := by
  cases h : decodeRequest facts08 facts02 cfg R (.obj name ns base fields o) d with
  | ok v l => exact Or.inl ⟨v, l, rfl⟩
  | fault => exact Or.inr rfl
  | crash e => exact absurd h (hier_request_no_crash cfg R hR name ns base fields o hwf d e)

/-- The whole input side, with the third-party parser as an oracle: for any request bytes — whatever the parser returns
    for them: a document of any shape, its documented syntax error or ANY other exception class — processing ends in a
    call of the user function or in a client fault; for MessagePack-RPC including the envelope (notifications,
    responses, undecodable method names). -/
theorem hier_server_no_crash (cfg : Cfg) (R : Registry) (hR : regWf R)
    (name ns : Text) (base : Option Text) (fields : Fields) (o : Occ)
    (hwf : wfTy (.obj name ns base fields o) = true) (p : Parsed) (e : String) :
    serverRun facts08 facts02 cfg R (.obj name ns base fields o) p ≠ .crash e := by
  intro h
  have := serverRun_safe R leafLaws08 facts02_good facts02_body facts02_parse hR (cfg := cfg) name ns base fields o hwf p
  rw [h] at this
  exact this

/-! ### non-vacuity: documents of the wrong kinds are faults, not crashes -/

def exTy : Ty := .obj "f".toList "tns".toList none
  [("d".toList, .prim .date {}), ("m".toList, .prim (.integer .i8 {}) { maxOccurs := some 3 })] {}
def exCfg : Cfg := ⟨.yaml, .none, true, .dict, false, false, true, [], []⟩

example : (decode facts08 facts02 exCfg [] exTy (.map [(.str "d".toList, .int 5)])).isFault = true := by decide +kernel
example : (decode facts08 facts02 exCfg [] exTy (.map [(.str "m".toList, .int 5)])).isFault = true := by decide +kernel
example : regWf [] := by intro cd h; cases h

end SpyneModel.Props.C10hier
