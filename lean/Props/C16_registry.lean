/-
  C16, continued — the registry the polymorphic round trip (Props/C16_xml.lean: `okOneX` asks for
  `I.classes.find? cls`) relies on is itself built by the application. Measured: `subclassInBaseNs`
  (T1 witness: Shape <- Circle <- Ring declared in urn:shapes, application tns urn:app, only Shape named in a
  signature: `{urn:shapes}Circle` and `{urn:shapes}Ring` are in `interface.classes`).
-/
import SpyneModel.XmlRegistry
import SpyneModel.Generated.Facts01
namespace SpyneModel.Props.C16registry
open SpyneModel SpyneModel.Xml SpyneModel.Generated

/-- a subclass declared in the namespace of its registered base is registered in the next round — whatever
    the target namespace of the application is, whether or not any signature names it -/
theorem subclass_in_base_namespace_is_registered (tns : Text) (all reg : List ClassDef) (p c : ClassDef)
    (hp : p ∈ reg) (hc : c ∈ all) (hb : c.base = some p.name) (hns : c.ns = p.ns) :
    hasName (regStep factsReg tns all reg) c.name = true := by
  have hR : factsReg.subclassInBaseNs = true := by decide
  unfold regStep hasName
  rw [List.any_append]
  by_cases h : reg.any (fun d => d.name = c.name) = true
  · simp [h]
  · have h' : reg.any (fun d => d.name = c.name) = false := by simpa using h
    simp only [h', Bool.false_or, List.any_eq_true, decide_eq_true_eq]
    refine ⟨c, ?_, rfl⟩
    simp only [pulledIn, List.mem_filter, hasName, h', Bool.not_false, Bool.true_and, List.any_eq_true, Bool.and_eq_true,
      decide_eq_true_eq, hR, if_true]
    exact ⟨hc, p, hp, hb, hns⟩

/-- registration only ever adds classes -/
theorem regStep_keeps (R : FactsReg) (tns : Text) (all reg : List ClassDef) (c : ClassDef) (h : c ∈ reg) :
    c ∈ regStep R tns all reg := by
  unfold regStep; exact List.mem_append_left _ h

/-! ### non-vacuity: the witness -/
def shape : ClassDef := ⟨"Shape".toList, "urn:shapes".toList, none, [("a".toList, .prim .boolean {})]⟩
def circle : ClassDef := ⟨"Circle".toList, "urn:shapes".toList, some "Shape".toList, [("a".toList, .prim .boolean {}), ("r".toList, .prim .boolean {})]⟩
def ring : ClassDef := ⟨"Ring".toList, "urn:shapes".toList, some "Circle".toList,
  [("a".toList, .prim .boolean {}), ("r".toList, .prim .boolean {}), ("w".toList, .prim .boolean {})]⟩
def far : ClassDef := ⟨"Far".toList, "urn:other".toList, some "Shape".toList, [("a".toList, .prim .boolean {})]⟩
example : (registry factsReg "urn:app".toList [shape, circle, ring, far] [shape]).map (·.name) =
    ["Shape".toList, "Circle".toList, "Ring".toList] := by decide
/-- with the namespace of the application instead of the namespace of the base, the tree is cut off -/
example : (registry ⟨false⟩ "urn:app".toList [shape, circle, ring, far] [shape]).map (·.name) = ["Shape".toList] := by decide

end SpyneModel.Props.C16registry
