/-
  C18 — calling a method through NullServer behaves like calling it over the wire.
  Property theorems only. Every theorem is about the model instantiated with the facts
  regenerated from /repo (`Generated.facts18`); the decisions of the anchored code that a theorem
  depends on are side conditions discharged by `decide`, so a theorem stops compiling when /repo
  stops making that decision.

  Quantifiers: every signature `s : Sig` (body style, argument names, return declaration), every
  program `impl : List Val → Result` (an arbitrary function of the received arguments: returns,
  returns `Ignored`, yields, raises a `Fault`, raises anything else), every call `(pos, kw)`,
  every value transfer `τ` (decode ∘ encode of a protocol, C01/C02's subject), no bound anywhere.
-/
import Proofs.Null
import Proofs.NullSeq
import Proofs.NullExt
import SpyneModel.Generated.Facts18
namespace SpyneModel.Props.C18
open SpyneModel.Null SpyneModel.Generated

/-! ### NullServer ≈ wire, per protocol

`wireViewP P` is the only normalisation: an `Ignored` handed to the direct caller is compared with
the empty reply, a generator with the sequence of its items, and — only on a protocol that writes a
missing member-less object as the empty element (`XmlDocument._bare_response`, measured fact
`bareNone`) and only for a bare/out_bare method declared to return such a class — `None` with the
empty instance of that class (`bare_none_view` below says exactly when). -/

theorem null_eq_wire_xml (τ : Val → Val) (s : Sig) (impl : List Val → Result) (pos : List Val)
    (kw : List (String × Val)) (hprog : ProgramOkOn τ s impl (nullRecv facts18 s pos kw))
    (hkw : KwOk facts18 kw) (hcall : CallOk τ s pos kw) :
    wireViewP facts18.xml s (nullCall facts18 s impl pos kw) = wireCall facts18 facts18.xml τ s impl pos kw :=
  null_eq_wire facts18 (by decide) facts18.xml (by decide) τ s impl pos kw hprog hkw hcall

theorem null_eq_wire_soap (τ : Val → Val) (s : Sig) (impl : List Val → Result) (pos : List Val)
    (kw : List (String × Val)) (hprog : ProgramOkOn τ s impl (nullRecv facts18 s pos kw))
    (hkw : KwOk facts18 kw) (hcall : CallOk τ s pos kw) :
    wireViewP facts18.soap s (nullCall facts18 s impl pos kw) = wireCall facts18 facts18.soap τ s impl pos kw :=
  null_eq_wire facts18 (by decide) facts18.soap (by decide) τ s impl pos kw hprog hkw hcall

theorem null_eq_wire_json (τ : Val → Val) (s : Sig) (impl : List Val → Result) (pos : List Val)
    (kw : List (String × Val)) (hprog : ProgramOkOn τ s impl (nullRecv facts18 s pos kw))
    (hkw : KwOk facts18 kw) (hcall : CallOk τ s pos kw) :
    wireViewP facts18.json s (nullCall facts18 s impl pos kw) = wireCall facts18 facts18.json τ s impl pos kw :=
  null_eq_wire facts18 (by decide) facts18.json (by decide) τ s impl pos kw hprog hkw hcall

/-! ### the user function is called with the same arguments -/

theorem args_received_xml (τ : Val → Val) (s : Sig) (pos : List Val) (kw : List (String × Val))
    (hkw : KwOk facts18 kw) (hcall : CallOk τ s pos kw) :
    nullRecv facts18 s pos kw = wireRecvOf facts18.xml τ s pos kw :=
  recv_agree facts18 facts18.xml (by decide) τ s pos kw hkw hcall

theorem args_received_soap (τ : Val → Val) (s : Sig) (pos : List Val) (kw : List (String × Val))
    (hkw : KwOk facts18 kw) (hcall : CallOk τ s pos kw) :
    nullRecv facts18 s pos kw = wireRecvOf facts18.soap τ s pos kw :=
  recv_agree facts18 facts18.soap (by decide) τ s pos kw hkw hcall

theorem args_received_json (τ : Val → Val) (s : Sig) (pos : List Val) (kw : List (String × Val))
    (hkw : KwOk facts18 kw) (hcall : CallOk τ s pos kw) :
    nullRecv facts18 s pos kw = wireRecvOf facts18.json τ s pos kw :=
  recv_agree facts18 facts18.json (by decide) τ s pos kw hkw hcall

/-! ### keyword and positional invocation are equivalent -/

/-- the first arguments positionally, any of the others by keyword (`p` selects which; only
    `None`s may be left out) = all of them positionally. No hypothesis on the values: a keyword
    `None` is either skipped or written over a `None`. -/
theorem kw_eq_pos (s : Sig) (impl : List Val → Result) (K1 K2 : List String)
    (hk : s.inKeys = some (K1 ++ K2)) (hnd : (K1 ++ K2).Nodup) (A1 A2 : List Val)
    (p : String × Val → Bool) (hp : ∀ q, p q = false → q.2.isNone = true)
    (h1 : A1.length = K1.length) (h2 : A2.length = K2.length) :
    nullCall facts18 s impl A1 ((K2.zip A2).filter p) = nullCall facts18 s impl (A1 ++ A2) [] :=
  nullCall_kw_eq_pos facts18 s impl K1 K2 hk hnd A1 A2 p hp h1 h2

/-- a keyword that is not an argument name changes nothing -/
theorem kw_unknown_ignored (keys : List String) (pos : List Val) (kw : List (String × Val))
    (k : String) (v : Val) (hk : k ∉ keys) :
    packArgs facts18 keys pos ((k, v) :: kw) = packArgs facts18 keys pos kw :=
  packArgs_unknown_kw facts18 keys pos kw k v hk

/-- The asymmetry of `NullServer`, stated, not hidden: while `if val is not None` is in
    `_FunctionCall.__call__` a keyword argument that is `None` lets the positional value stand
    (Python binding and the wire would pass the `None`); this is why `KwOk` is a hypothesis of
    `null_eq_wire_*`. -/
theorem kw_none_keeps_positional (h : facts18.kwNoneSkipped = true) (keys : List String)
    (pos : List Val) (kw : List (String × Val)) (k : String) (hk : ∀ q ∈ kw, q.1 ≠ k) :
    packArgs facts18 keys pos ((k, .none) :: kw) = packArgs facts18 keys pos kw :=
  packArgs_kw_none facts18 h keys pos kw k hk

/-! ### Ignored, faults, generators, nothing declared -/

/-- an `Ignored` return is delivered to the direct caller but sent as empty over the wire
    (`None`, or one `None` per declared return value), whichever of the three protocols -/
theorem ignored_direct_vs_wire (P : ProtoCfg)
    (hP : P = facts18.xml ∨ P = facts18.soap ∨ P = facts18.json) (τ : Val → Val) (s : Sig)
    (impl : List Val → Result) (keys : List String) (hk : s.inKeys = some keys) (pos : List Val)
    (kw : List (String × Val)) (hlen : pos.length ≤ keys.length) (x : Val)
    (himpl : ∀ recv, impl recv = .value (.ignored x)) :
    nullCall facts18 s impl pos kw = .ok (.ignored x) ∧
    wireCall facts18 P τ s impl pos kw = .ok (viewVal P s (emptyReply s)) := by
  have hg : P.Good := by rcases hP with h | h | h <;> subst h <;> decide
  exact Null.ignored_direct_vs_wire facts18 (by decide) P hg τ s impl keys hk pos kw hlen x himpl

/-- a raised `Fault` reaches both callers as the same fault — code, string, actor and detail
    (`c : Flt`) —, any other exception reaches both as a `Server` fault (for every protocol
    configuration, no side condition; that the members of the fault survive a given protocol
    configuration is watched by T3 on every configuration, cf. C09) -/
theorem fault_direct_and_wire (P : ProtoCfg) (τ : Val → Val) (s : Sig) (impl : List Val → Result)
    (keys : List String) (hk : s.inKeys = some keys) (pos : List Val) (kw : List (String × Val))
    (hlen : pos.length ≤ keys.length) (c : Flt)
    (himpl : ∀ recv, impl recv = .fault c ∨ (impl recv = .error ∧ c = "Server")) :
    nullCall facts18 s impl pos kw = .fault c ∧ wireCall facts18 P τ s impl pos kw = .fault c :=
  fault_both facts18 P τ s impl keys hk pos kw hlen c himpl

/-- the direct caller gets the generator, the wire client the sequence of its items -/
theorem generator_direct_vs_wire (P : ProtoCfg)
    (hP : P = facts18.xml ∨ P = facts18.soap ∨ P = facts18.json) (τ : Val → Val) (s : Sig)
    (impl : List Val → Result) (keys : List String) (hk : s.inKeys = some keys) (pos : List Val)
    (kw : List (String × Val)) (hlen : pos.length ≤ keys.length) (xs : List Val)
    (hnr : s.noReturn = false) (h1 : ¬ (s.style = .wrapped ∧ 2 ≤ s.outLen))
    (himpl : ∀ recv, impl recv = .value (.gen xs)) (hτ : τ (.seq xs) = .seq xs) :
    nullCall facts18 s impl pos kw = .ok (.gen xs) ∧
    wireCall facts18 P τ s impl pos kw = .ok (.seq xs) := by
  have hg : P.Good := by rcases hP with h | h | h <;> subst h <;> decide
  exact generator_result facts18 (by decide) P hg τ s impl keys hk pos kw hlen xs hnr h1 himpl hτ

/-- when nothing is declared to come back the direct caller gets `None` (or the `Ignored`),
    whatever the function returns and whatever the body style -/
theorem undeclared_return_dropped (s : Sig) (hnr : s.noReturn = true) (impl : List Val → Result)
    (pos : List Val) (kw : List (String × Val)) (v : Val)
    (h : nullCall facts18 s impl pos kw = .ok v) : v = .none ∨ v.isIgnored = true :=
  no_return_is_none facts18 (by decide) s hnr impl pos kw v h

/-- a conformant call through `NullServer` ends in a value or a `Fault`, never in another
    exception class -/
theorem null_never_crashes (τ : Val → Val) (s : Sig) (impl : List Val → Result)
    (keys : List String) (hk : s.inKeys = some keys) (pos : List Val) (kw : List (String × Val))
    (hlen : pos.length ≤ keys.length) (hprog : ProgramOk τ s impl) (e : String) :
    nullCall facts18 s impl pos kw ≠ .exc e :=
  null_total facts18 (by decide) s impl keys hk pos kw hlen τ hprog e

/-- what `viewVal` (the part of `wireViewP` that depends on the protocol) does: nothing, except that
    for a method that is not wrapped and is declared to return a class without members, on a
    protocol with `bareNone = emptyInstance`, the wire client gets an empty instance of that class
    where the direct caller gets `None`. A member-less instance carries no information but its
    presence; on such a protocol presence cannot be transmitted. In particular the EMPTY styles
    without a declared return (`returns = none`) and every wrapped method are untouched, and a
    protocol with `bareNone = nil` (dict documents) is untouched altogether. -/
theorem bare_none_view (P : ProtoCfg) (s : Sig) (v : Val) :
    viewVal P s v = v ∨
    (∃ cls, P.bareNone = .emptyInstance ∧ s.style ≠ .wrapped ∧ s.returns = .one (.complex cls []) ∧
      v = .none ∧ viewVal P s v = .obj cls []) :=
  viewVal_cases P s v

/-! ### auxiliary companions and kept function objects -/

/-- The caller gets the primary method's result: auxiliary methods bound to the same public name
    run (`aux_args_received`), their results and errors are discarded — whatever they are, however
    many there are. -/
theorem null_result_is_primary (s : Sig) (impl : List Val → Result) (auxs : List Aux)
    (kept : Option (List Val)) (pos : List Val) (kw : List (String × Val)) :
    nullCallFrom facts18 s impl auxs kept pos kw = nullCall facts18 s impl pos kw :=
  nullCallFrom_good facts18 (by decide) s impl auxs kept pos kw

/-- A `_FunctionCall` object carries no argument state between calls: on one kept object
    (`f = server.service.m`) the i-th call's result, and what the function receives in it, depend
    on that call's own arguments only — for every history, every initial state. -/
theorem null_call_history_free (s : Sig) (impl : List Val → Result) (auxs : List Aux)
    (kept : Option (List Val)) (cs : List Call) :
    callSeq facts18 s impl auxs kept cs = (cs.map fun c => nullCall facts18 s impl c.1 c.2) ∧
    recvSeq facts18 s kept cs = (cs.map fun c => nullRecv facts18 s c.1 c.2) :=
  ⟨callSeq_history_free facts18 (by decide) s impl auxs kept cs,
   recvSeq_history_free facts18 (by decide) s kept cs⟩

/-- NullServer ≈ wire, extended: any auxiliary companions, any state of a kept object, whichever
    of the three protocols -/
theorem null_eq_wire_aux (P : ProtoCfg)
    (hP : P = facts18.xml ∨ P = facts18.soap ∨ P = facts18.json) (τ : Val → Val) (s : Sig)
    (impl : List Val → Result) (auxs : List Aux) (kept : Option (List Val)) (pos : List Val)
    (kw : List (String × Val)) (hprog : ProgramOkOn τ s impl (nullRecv facts18 s pos kw))
    (hkw : KwOk facts18 kw) (hcall : CallOk τ s pos kw) :
    wireViewP P s (nullCallFrom facts18 s impl auxs kept pos kw)
      = wireCallAux facts18 P τ s impl auxs pos kw := by
  have hg : P.Good := by rcases hP with h | h | h <;> subst h <;> decide
  exact nullFrom_eq_wireAux facts18 (by decide) (by decide) P hg τ s impl auxs kept pos kw hprog hkw hcall

/-- the auxiliary functions run in the same cases (not when the primary method failed) and with
    the same arguments on both paths -/
theorem aux_args_received (P : ProtoCfg)
    (hP : P = facts18.xml ∨ P = facts18.soap ∨ P = facts18.json) (τ : Val → Val) (s : Sig)
    (impl : List Val → Result) (auxs : List Aux) (kept : Option (List Val)) (pos : List Val)
    (kw : List (String × Val)) (hprog : ProgramOkOn τ s impl (nullRecv facts18 s pos kw))
    (hkw : KwOk facts18 kw) (hcall : CallOk τ s pos kw) (haux : ∀ a ∈ auxs, CallOk τ a.1 pos kw) :
    nullAuxRecv facts18 s impl auxs kept pos kw = wireAuxRecv facts18 P τ s impl auxs pos kw := by
  have hg : P.Good := by rcases hP with h | h | h <;> subst h <;> decide
  exact auxRecv_agree facts18 (by decide) (by decide) P hg τ s impl auxs kept pos kw hprog hkw hcall haux

/-- `_cb_sync` run for every context: the caller gets the auxiliary method's result -/
theorem last_context_breaks_null (F : Facts18) (h : F.auxResult = .lastContext) (s : Sig)
    (impl : List Val → Result) (a : Aux) (kept : Option (List Val)) (pos : List Val)
    (kw : List (String × Val)) (v : Val)
    (hp : ctxResult F s impl (nullRecvFrom F s kept pos kw) = .ok v) :
    nullCallFrom F s impl [a] kept pos kw = ctxResult F a.1 a.2 (nullRecv F a.1 pos kw) :=
  lastContext_breaks F h s impl a kept pos kw v hp

/-! ### the string mode, member methods -/

/-- `NullServer(app, ostr=True)`: the string it returns decodes to exactly what the wire client
    gets — for every signature, program and conformant call, Ignored included (sent as empty) -/
theorem ostr_eq_wire (P : ProtoCfg)
    (hP : P = facts18.xml ∨ P = facts18.soap ∨ P = facts18.json) (τ : Val → Val) (s : Sig)
    (impl : List Val → Result) (pos : List Val) (kw : List (String × Val))
    (hprog : ProgramOkOn τ s impl (nullRecv facts18 s pos kw)) (hkw : KwOk facts18 kw)
    (hcall : CallOk τ s pos kw) :
    nullOstr facts18 P τ s impl pos kw = wireCall facts18 P τ s impl pos kw := by
  have hg : P.Good := by rcases hP with h | h | h <;> subst h <;> decide
  exact nullOstr_eq_wire facts18 (by decide) (by decide) P hg τ s impl pos kw hprog hkw hcall

/-- the string mode without the replacement of `Ignored` (pinned tree): a TypeError instead of
    the empty reply -/
theorem ostr_serialized_breaks_null (F : Facts18) (h : F.ostrIgnored = .serialized) (P : ProtoCfg)
    (τ : Val → Val) (s : Sig) (impl : List Val → Result) (keys : List String)
    (hk : s.inKeys = some keys) (pos : List Val) (kw : List (String × Val))
    (hlen : pos.length ≤ keys.length) (x : Val) (himpl : ∀ recv, impl recv = .value (.ignored x))
    (hcb : ∃ v, cbSync F s (wrapOut F s (.ignored x)) = .ok v) :
    nullOstr F P τ s impl pos kw = .exc "TypeError" :=
  ostr_serialized_breaks F h P τ s impl keys hk pos kw hlen x himpl hcb

/-- member methods (`@mrpc`): `call_wrapper` respawns `self` from the first argument and calls the
    function with it; that is a transformation of the program shared by both paths, so NullServer
    agrees with the wire for member methods of every class, with or without `_default_on_null` -/
theorem member_eq_wire (P : ProtoCfg)
    (hP : P = facts18.xml ∨ P = facts18.soap ∨ P = facts18.json) (τ : Val → Val) (s : Sig)
    (m : Option Member) (impl : List Val → Result) (pos : List Val) (kw : List (String × Val))
    (hprog : ProgramOk τ s impl) (hkw : KwOk facts18 kw) (hcall : CallOk τ s pos kw) :
    wireViewP P s (nullCall facts18 s (memberImpl m impl) pos kw)
      = wireCall facts18 P τ s (memberImpl m impl) pos kw := by
  have hg : P.Good := by rcases hP with h | h | h <;> subst h <;> decide
  exact null_eq_wire facts18 (by decide) P hg τ s (memberImpl m impl) pos kw
    ((memberImpl_ok τ s m impl hprog).on _) hkw hcall

/-- the instance is what the caller passed; a missing one is a Client.ResourceNotFound fault, or a
    fresh instance with `_default_on_null` -/
theorem member_respawn (m : Member) (x : Val) (rest : List Val) :
    respawn m (x :: rest) =
      (if x.isNone then
         (if m.defaultOnNull then .ok (.obj m.cls (m.fields.map fun f => (f, Val.none)) :: rest)
          else .fault "Client.ResourceNotFound")
       else .ok (x :: rest)) := rfl

/-- how the decorator reads `_body_style` / `_soap_body_style`: the latter only counts when the
    former is given -/
theorem body_style_reading (sb : Option String) (b : String) :
    validateBodyStyle none sb = some .wrapped ∧
    validateBodyStyle (some b) none =
      (if b = "wrapped" then some .wrapped else if b = "bare" then some .bare
       else if b = "out_bare" then some .outBare else none) :=
  ⟨validateBodyStyle_default sb, validateBodyStyle_plain b⟩

/-! ### body styles -/

/-- `is_out_bare()` holds exactly for the methods decorated with a body style other than wrapped -/
theorem is_out_bare_iff (s : Sig) : facts18.isOutBare s.bodyStyle = true ↔ s.style ≠ .wrapped :=
  isOutBare_iff facts18 (by decide) s

/-- the decorator's table: empty input turns `bare`/`out_bare` into EMPTY or EMPTY_OUT_BARE -/
theorem body_style_table (s : Sig) :
    s.bodyStyle =
      (if s.style = .wrapped then .wrapped
       else if s.inEmptyComplex then (if s.outEmptyComplex then .empty else .emptyOutBare)
       else if s.style = .outBare then .outBare else .bare) := by
  unfold Sig.bodyStyle
  cases s.style <;> simp

/-! ### each measured decision matters (what breaks when a fact flips) -/

/-- a protocol that serialises the whole `ctx.out_object` list for the non-wrapped body styles
    (XmlDocument in the pinned tree) answers every such call with a Server fault -/
theorem whole_list_breaks_wire (P : ProtoCfg) (hP : P.bareOut = .wholeList) (τ : Val → Val) (s : Sig)
    (hst : s.style ≠ .wrapped) (out : Val) : respond P τ s out = .fault "Server" :=
  wholeList_breaks P hP τ s hst out

/-- replacing a lone `Ignored` by `()` (pinned tree) makes a protocol that indexes
    `ctx.out_object` fail for two or more declared return values -/
theorem empty_tuple_breaks_wire (F : Facts18) (hF : F.ignMany = .emptyTuple) (P : ProtoCfg)
    (hP : P.shortOut = .indexError) (τ : Val → Val) (s : Sig) (hst : s.style = .wrapped)
    (hn : 1 ≤ s.outLen) (x : Val) :
    respond P τ s (ignoredOnWire F s (.ignored x)) = .fault "Server" :=
  emptyTuple_breaks F hF P hP τ s hst hn x

/-- testing `is_out_bare()` first (pinned tree) hands an undeclared return value to the caller -/
theorem out_bare_first_breaks_null (F : Facts18) (hF : F.cbOrder = .outBareFirst) (s : Sig)
    (hob : F.isOutBare s.bodyStyle = true) (r : Val) (hr : r.isIgnored = false) :
    cbSync F s (.seq [r]) = .ok r :=
  outBareFirst_breaks F hF s hob r hr

/-- looking the argument of a bare method up under its class name (dict documents in the pinned
    tree) loses it: the function is called with an empty list -/
theorem class_name_breaks_wire (P : ProtoCfg) (hP : P.bareIn = .className) (τ : Val → Val) (s : Sig)
    (hbs : s.bodyStyle = .bare) (keys : List String) (sent : List Val) :
    wireRecv P τ s keys sent = [.seq []] :=
  className_breaks P hP τ s hbs keys sent

/-- rendering a missing object as an empty one (dict documents in the pinned tree) hands the wire
    client an instance where the direct caller gets `None` -/
theorem empty_object_breaks_wire (P : ProtoCfg) (hP : P.noneSingle = .emptyObject) (s : Sig)
    (cls : String) (fs : List String) (hr : s.returns = .one (.complex cls fs)) (rest : List Val) :
    unwrapWrapped P s 1 (Val.none :: rest) = .obj cls (fs.map fun f => (f, Val.none)) :=
  emptyObject_breaks P hP s cls fs hr rest

/-- a declared return type is handed to the direct caller as it is — in particular an instance of
    a class WITHOUT members (a plain acknowledgement object), in every body style: only the
    response wrapper the decorator synthesises means "nothing comes back" -/
theorem declared_return_delivered (s : Sig) (k : RetKind) (hk : s.returns = .one k) (r : Val)
    (hr : r.isIgnored = false) : cbSync facts18 s (wrapOut facts18 s r) = .ok r :=
  cbSync_declared_one facts18 (by decide) s k hk r hr

/-- `_is_empty_wrapper` without its `_wrapper` test: a bare/out_bare method that returns an instance
    of a member-less class hands `None` to the direct caller (the wire sends an empty object) -/
theorem members_only_breaks_null (F : Facts18) (hc : F.cbOrder = .noReturnFirst)
    (hw : F.ewWrapper = false) (s : Sig) (k : RetKind) (hst : s.style ≠ .wrapped)
    (hk : s.returns = .one k) (h0 : k.complexFields = some 0) (r : Val) (hr : r.isIgnored = false) :
    cbSync F s (.seq [r]) = .ok .none :=
  membersOnly_breaks F hc hw s k hst hk h0 r hr

/-- `_is_empty_wrapper` without its member count: every wrapped method returns `None` -/
theorem wrapper_only_breaks_null (F : Facts18) (hc : F.cbOrder = .noReturnFirst)
    (hm : F.ewMembers = false) (s : Sig) (hst : s.style = .wrapped) (r : Val)
    (hr : r.isIgnored = false) : cbSync F s (.seq [r]) = .ok .none :=
  wrapperOnly_breaks F hc hm s hst r hr

/-! ### non-vacuity: concrete signatures, programs and calls that meet the hypotheses -/

section examples

/-- `@srpc(Integer, Unicode, _returns=[Integer, Unicode])  def f(a, b): return a, b` -/
private def sW : Sig := ⟨.wrapped, ["a", "b"], none, .many 2⟩
private def echo2 : List Val → Result
  | [a, b] => .value (.seq [a, b])
  | _ => .error
/-- `@srpc(P, _returns=P, _body_style='bare')  def g(p): return p` with `P(a, b)` -/
private def sB : Sig := ⟨.bare, ["p"], some ("P", ["a", "b"]), .one (.complex "P" ["a", "b"])⟩
private def echo1 : List Val → Result
  | [p] => .value p
  | _ => .error
/-- `@srpc(_body_style='bare')  def h(): return 'junk'` -/
private def sE : Sig := ⟨.bare, [], none, .none⟩

example : sW.decorates = true ∧ sB.decorates = true ∧ sE.decorates = true := by decide
example : sW.bodyStyle = .wrapped ∧ sB.bodyStyle = .bare ∧ sE.bodyStyle = .empty := by decide

example : KwOk facts18 [("b", .str "x")] := Or.inr (by simp [Val.isNone])
example : CallOk id sW [.int 1] [("b", .str "x")] :=
  ⟨by intro keys h; cases h; decide, by intro v hv; simp at hv; subst hv; rfl,
   by intro p hp; simp at hp; subst hp; rfl⟩

/-- the echo program conforms for arguments that survive the protocol: `ProgramOk` is satisfiable
    by a program whose result depends on its arguments -/
example : ResultOk id sW (.seq [.int 1, .str "x"]) :=
  Or.inr ⟨rfl, by
    rw [if_pos (by decide)]
    exact ⟨_, rfl, rfl, by intro v hv; simp at hv; rcases hv with h | h <;> subst h <;> exact ⟨rfl, rfl⟩⟩⟩

/-- the main theorem applies to an argument-dependent program and a mixed positional/keyword
    call: all its hypotheses are met -/
example : wireViewP facts18.xml sW (nullCall facts18 sW echo2 [.int 1] [("b", .str "x")])
    = wireCall facts18 facts18.xml id sW echo2 [.int 1] [("b", .str "x")] :=
  null_eq_wire_xml id sW echo2 [.int 1] [("b", .str "x")]
    (by
      intro args r hrecv hi
      have : args = [.int 1, .str "x"] := by
        have h : nullRecv facts18 sW [.int 1] [("b", .str "x")] = .ok [.int 1, .str "x"] := rfl
        rw [h] at hrecv; cases hrecv; rfl
      subst this
      have : r = .seq [.int 1, .str "x"] := by cases hi; rfl
      subst this
      exact Or.inr ⟨rfl, by
        rw [if_pos (by decide)]
        exact ⟨_, rfl, rfl, by intro v hv; simp at hv; rcases hv with h | h <;> subst h <;> exact ⟨rfl, rfl⟩⟩⟩)
    (Or.inr (by simp [Val.isNone]))
    ⟨by intro keys h; cases h; decide, by intro v hv; simp at hv; subst hv; rfl,
     by intro p hp; simp at hp; subst hp; rfl⟩

/-- `kw_eq_pos` instantiated: `f(1, b='x')` = `f(1, 'x')` -/
example : nullCall facts18 sW echo2 [.int 1] ((["b"].zip [.str "x"]).filter fun _ => true)
    = nullCall facts18 sW echo2 ([.int 1] ++ [.str "x"]) [] :=
  kw_eq_pos sW echo2 ["a"] ["b"] rfl (by decide) [.int 1] [.str "x"] (fun _ => true) (by simp) rfl rfl

example : nullCall facts18 sW echo2 [.int 1] [("b", .str "x")] = .ok (.seq [.int 1, .str "x"]) := rfl
example : wireCall facts18 facts18.json id sW echo2 [.int 1] [("b", .str "x")]
    = .ok (.seq [.int 1, .str "x"]) := rfl
example : nullCall facts18 sW echo2 [] [("b", .str "x"), ("a", .int 1)]
    = nullCall facts18 sW echo2 [.int 1, .str "x"] [] := rfl
/-- bare with a complex argument passed field-wise -/
example : nullCall facts18 sB echo1 [.int 5] [("b", .str "q")]
    = .ok (.obj "P" [("a", .int 5), ("b", .str "q")]) := rfl
example : wireCall facts18 facts18.xml id sB echo1 [.int 5] [("b", .str "q")]
    = .ok (.obj "P" [("a", .int 5), ("b", .str "q")]) := rfl
/-- `@srpc(Integer, _returns=Ack, _body_style='out_bare')` and `@srpc(_returns=Ack, _body_style='bare')`
    with `class Ack(ComplexModel): pass`: the instance reaches both callers; `None` stays `None` -/
example : let s : Sig := ⟨.outBare, ["n"], none, .one (.complex "Ack" [])⟩
    s.bodyStyle = .outBare ∧ s.noReturn = false ∧
    nullCall facts18 s (fun _ => .value (.obj "Ack" [])) [.int 1] [] = .ok (.obj "Ack" []) ∧
    wireCall facts18 facts18.json id s (fun _ => .value (.obj "Ack" [])) [.int 1] [] = .ok (.obj "Ack" []) ∧
    nullCall facts18 s (fun _ => .value .none) [.int 0] [] = .ok .none := ⟨rfl, rfl, rfl, rfl, rfl⟩
example : let s : Sig := ⟨.bare, [], none, .one (.complex "Ack" [])⟩
    s.bodyStyle = .empty ∧
    nullCall facts18 s (fun _ => .value (.obj "Ack" [])) [] [] = .ok (.obj "Ack" []) ∧
    wireCall facts18 facts18.xml id s (fun _ => .value (.obj "Ack" [])) [] [] = .ok (.obj "Ack" []) :=
  ⟨rfl, rfl, rfl⟩
/-- `None` where a member-less class is declared, not wrapped: `None` to the direct caller; over a
    protocol that writes the empty element an empty instance, over one that writes null `None`;
    nothing declared (EMPTY style): `None` on both, whatever the protocol writes -/
example : let s : Sig := ⟨.outBare, ["n"], none, .one (.complex "Ack" [])⟩
    let X : ProtoCfg := { facts18.xml with bareNone := .emptyInstance }
    let J : ProtoCfg := { facts18.json with bareNone := .nil }
    nullCall facts18 s (fun _ => .value .none) [.int 0] [] = .ok .none ∧
    wireCall facts18 X id s (fun _ => .value .none) [.int 0] [] = .ok (.obj "Ack" []) ∧
    wireCall facts18 J id s (fun _ => .value .none) [.int 0] [] = .ok .none ∧
    wireCall facts18 X id ⟨.bare, [], none, .none⟩ (fun _ => .value .none) [] [] = .ok .none :=
  ⟨rfl, rfl, rfl, rfl⟩

/-- the seeded defect in the model: with `ewWrapper := false` the direct caller loses the instance -/
example : let F := { facts18 with ewWrapper := false }
    nullCall F ⟨.outBare, ["n"], none, .one (.complex "Ack" [])⟩ (fun _ => .value (.obj "Ack" [])) [.int 1] []
      = .ok .none := rfl

/-- an auxiliary companion that returns something else, one that raises: the primary's result -/
example : nullCallFrom facts18 sW echo2
    [(sW, fun _ => .value (.seq [.int 0, .str "aux"])), (sW, fun _ => .fault "Client.Aux")]
    none [.int 1, .str "x"] [] = .ok (.seq [.int 1, .str "x"]) := rfl
/-- the seeded defect in the model: `_cb_sync` for every context hands out the aux result -/
example : nullCallFrom { facts18 with auxResult := .lastContext } sW echo2
    [(sW, fun _ => .value (.seq [.int 0, .str "aux"]))] none [.int 1, .str "x"] []
    = .ok (.seq [.int 0, .str "aux"]) := rfl
/-- `f = server.service.fmt; f('a', 8); f('b')`: the second call sees `None`; with shared slots
    (the seeded defect) it would see the 8 of the first call -/
example : let fmt : Sig := ⟨.wrapped, ["s", "w"], none, .many 2⟩
    callSeq facts18 fmt echo2 [] none [([.str "a", .int 8], []), ([.str "b"], [])]
      = [.ok (.seq [.str "a", .int 8]), .ok (.seq [.str "b", .none])] ∧
    callSeq { facts18 with slotsPerCall := false } fmt echo2 [] none
        [([.str "a", .int 8], []), ([.str "b"], [])]
      = [.ok (.seq [.str "a", .int 8]), .ok (.seq [.str "b", .int 8])] := ⟨rfl, rfl⟩

/-- string mode, Ignored with two declared values: the empty reply; on the pinned tree a TypeError -/
example : nullOstr facts18 facts18.xml id sW (fun _ => .value (.ignored (.int 7))) [] []
    = .ok (.seq [.none, .none]) ∧
    nullOstr { facts18 with ostrIgnored := .serialized } facts18.xml id sW
      (fun _ => .value (.ignored (.int 7))) [] [] = .exc "TypeError" := ⟨rfl, rfl⟩
/-- `class M: @mrpc(Integer, _returns=…) def pair(self, ctx, n)`: `server.service['M.pair'](M(a=5), 3)`,
    and the same without the instance -/
example : let sM : Sig := ⟨.wrapped, ["self", "n"], none, .many 2⟩
    let m : Member := ⟨"M", ["a"], false, true⟩
    nullCall facts18 sM (memberImpl (some m) echo2) [.obj "M" [("a", .int 5)], .int 3] []
      = .ok (.seq [.obj "M" [("a", .int 5)], .int 3]) ∧
    nullCall facts18 sM (memberImpl (some m) echo2) [.none, .int 3] [] = .fault "Client.ResourceNotFound" ∧
    wireCall facts18 facts18.json id sM (memberImpl (some m) echo2) [.none, .int 3] []
      = .fault "Client.ResourceNotFound" ∧
    nullCall facts18 sM (memberImpl (some { m with defaultOnNull := true }) echo2) [.none, .int 3] []
      = .ok (.seq [.obj "M" [("a", .none)], .int 3]) ∧
    nullCall facts18 sM (memberImpl (some { m with whenOk := false }) echo2) [.obj "M" [("a", .int 5)], .int 3] []
      = .fault "Client.InvalidInput" := ⟨rfl, rfl, rfl, rfl, rfl⟩
example : validateBodyStyle (some "wrapped") (some "rpc") = some .bare ∧
    validateBodyStyle (some "out_bare") (some "document") = some .wrapped ∧
    validateBodyStyle none (some "rpc") = some .wrapped ∧
    validateBodyStyle (some "Bare") none = none ∧ validateBodyStyle (some "bare") (some "x") = none := by decide

/-- a fault with a detail and no actor: the same record on both paths -/
example : let f : Flt := { code := "Client.OutOfStock", str := some "not enough items",
                           detail := .obj "dict" [("item", .str "nail")] }
    nullCall facts18 sW (fun _ => .fault f) [] [] = .fault f ∧
    wireCall facts18 facts18.json id sW (fun _ => .fault f) [] [] = .fault f := ⟨rfl, rfl⟩

/-- Ignored with two declared return values -/
example : nullCall facts18 sW (fun _ => .value (.ignored (.int 7))) [] [] = .ok (.ignored (.int 7)) ∧
    wireCall facts18 facts18.xml id sW (fun _ => .value (.ignored (.int 7))) [] []
      = .ok (.seq [.none, .none]) := ⟨rfl, rfl⟩
/-- nothing declared, something returned -/
example : nullCall facts18 sE (fun _ => .value (.str "junk")) [] [] = .ok .none := rfl
/-- the stated asymmetry is real (whenever `if val is not None` is in `_FunctionCall.__call__`) -/
example : let F := { facts18 with kwNoneSkipped := true }
    nullCall F sW echo2 [.int 1, .str "x"] [("a", .none)] = .ok (.seq [.int 1, .str "x"]) ∧
    wireCall F F.soap id sW echo2 [.int 1, .str "x"] [("a", .none)]
      = .ok (.seq [.none, .str "x"]) := ⟨rfl, rfl⟩

end examples

end SpyneModel.Props.C18
