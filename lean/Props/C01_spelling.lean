/-
  C01, continued — "a request document that DENOTES those values": a document can be spelled in many ways.
  `Raw` (SpyneModel/XmlSpelling.lean) is a parsed document with comments, processing instructions, CDATA
  sections and character data in pieces; `denote` is the tree it denotes, `parserView factsDoc` the tree the
  parser that XmlDocument / Soap11 / Soap12 configure hands to `from_element` (measured: `commentsRemoved`,
  `pisRemoved`, T1 witnesses: a comment / PI inside a text value). Every theorem of Props/C01*.lean about
  `decode` on a `Node` is, through `server_sees_denoted_tree`, a theorem about every spelling of that node.
  Entity / character references, prefixes and default-namespace declarations are resolved by the parser
  (oracle) and only exist in T3. Chunked byte values: the native value of ByteArray is a sequence of chunks,
  the model's `Val.bytes` their concatenation (`chunked_bytes_written_as_concatenation`, measured
  `bytesJoinBeforeEncode`, witness `[b'a', b'bcd']`).
-/
import Proofs.XmlSpelling
import Proofs.XmlRoundtrip
import Props.Facts08Good
import SpyneModel.Generated.Facts01
namespace SpyneModel.Props.C01spelling
open SpyneModel SpyneModel.Xml SpyneModel.Generated

/-- the deserialiser is handed the tree the document denotes: comment- and PI-free, text merged -/
theorem server_sees_denoted_tree (r : Raw) : parserView factsDoc r = denote r :=
  parserView_eq_denote factsDoc (by decide) (by decide) r

/-- so decoding a document is decoding what it denotes, whatever its spelling -/
theorem decode_of_any_spelling (cfg : Cfg) (I : Iface) (t : Ty) (r : Raw) :
    decode facts08 factsXml cfg I t (parserView factsDoc r) = decode facts08 factsXml cfg I t (denote r) := by
  rw [server_sees_denoted_tree]

/-- two spellings of the same tree are decoded alike -/
theorem same_denotation_same_outcome (cfg : Cfg) (I : Iface) (t : Ty) (r r' : Raw) (h : denote r = denote r') :
    decode facts08 factsXml cfg I t (parserView factsDoc r) = decode facts08 factsXml cfg I t (parserView factsDoc r') := by
  rw [server_sees_denoted_tree, server_sees_denoted_tree, h]

/-- a comment or processing instruction anywhere in the content of an element (inside a text value, between
    the items of an array, in front of the request element in soap:Body, …) does not change the denotation -/
theorem comments_and_pis_denote_nothing (ns name : Text) (attrs : List (Text × Text)) (pre post : List RawItem)
    (x : RawItem) (hx : isNoise x = true) :
    denote (.elem ns name attrs (pre ++ x :: post)) = denote (.elem ns name attrs (pre ++ post)) :=
  denote_insert_noise ns name attrs pre post x hx

/-- character data cut into pieces, any of them CDATA sections, denotes the concatenation -/
theorem text_pieces_and_cdata_denote_the_text (ns name : Text) (attrs : List (Text × Text)) (pre post : List RawItem)
    (a b : Text) (c1 c2 c3 : Bool) :
    denote (.elem ns name attrs (pre ++ piece c1 (a ++ b) :: post)) =
      denote (.elem ns name attrs (pre ++ piece c2 a :: piece c3 b :: post)) :=
  denote_split_text ns name attrs pre post a b c1 c2 c3

/-- respelling below respells above -/
theorem respelled_child (ns name : Text) (attrs : List (Text × Text)) (pre post : List RawItem) (e e' : Raw)
    (h : denote e = denote e') :
    denote (.elem ns name attrs (pre ++ .child e :: post)) = denote (.elem ns name attrs (pre ++ .child e' :: post)) :=
  denote_child_congr ns name attrs pre post e e' h

/-- a byte value handed over as a sequence of chunks is written as the concatenation of the chunks -/
theorem chunked_bytes_written_as_concatenation (enc : BinEnc) (chunks : List (List Nat)) :
    chunksText facts08 factsDoc enc chunks = leafToText facts08 (.bytes enc) (.bytes chunks.flatten) :=
  chunksText_join facts08 factsDoc (by decide) enc chunks

/-- another spelling many toolkits use: an element carries xsi:type naming ITS OWN declared class (whatever
    customised variant of the class the position is declared with — the model compares classes by name, the
    code through `__orig__`): the decoder continues with exactly that class -/
theorem own_xsi_type_resolves_to_the_declared_class (I : Iface) (hI : ifaceWf I = true) (c : ClassDef) (hc : c ∈ I.classes)
    (dns : Text) (db : Option Text) (dfs : List (Text × Ty)) (docc : Occ) :
    resolveXsi factsXml I (.obj c.name dns db dfs docc) (clark c.ns c.name) = some (ClassDef.toTy c) :=
  resolveXsi_class hI hc c.name dns db dfs docc (by unfold Iface.isSub Hier.isSub; simp)

/-! ### non-vacuity: the demo document of the seed -/
def exTitle : Raw := .elem "urn:d".toList "title".toList []
  [.text "Hello, ".toList, .comment " c ".toList, .text "World".toList]
example : denote exTitle = .elem "urn:d".toList "title".toList [] (some "Hello, World".toList) [] := by rfl
example : parserView { commentsRemoved := false, pisRemoved := true, bytesJoinBeforeEncode := true } exTitle =
    .elem "urn:d".toList "title".toList [] (some "Hello, ".toList) [pseudoNode " c ".toList] := by rfl
example : chunksText facts08 { commentsRemoved := true, pisRemoved := true, bytesJoinBeforeEncode := false } .base64
    [[104], [105]] = leafToText facts08 (.bytes .base64) (.bytes [104]) := by rfl

end SpyneModel.Props.C01spelling
