/-
  C02 — dict-document wire fidelity (JSON, YAML, MessagePack).
  Property theorems only, about the model instantiated with the facts regenerated from /repo
  (`facts08` leaf switches, `facts02` dict-document switches); side conditions discharged by `decide`.

  `cfg` ranges over {json, yaml, msgpack, msgpackRpc} × validator {none, soft} × ignore_wrappers × complex_as
  {dict, list} × polymorphic; `Cfg.selfConsistent` excludes only `complex_as=list` with `ignore_wrappers=False` for documents
  the protocol itself has to read back (it writes positional lists without the wrappers its reader insists on);
  requests in the documented spellings are covered for every configuration by `hier_decodes_conventional`.
-/
import Proofs.HierC02
import Proofs.HierAlias
import Props.Facts08Good
import SpyneModel.Generated.Facts02
namespace SpyneModel.Props.C02
open SpyneModel SpyneModel.Hier SpyneModel.Generated SpyneModel.Props

/-- the dict-document switches the round trip depends on have their good values in /repo (D09; `null` for a
    complex member is `None`; JSON lets `null` through for nillable dates; arrays of arrays are written level by
    level, so that the model's encoder is the code's) -/
theorem facts02_rt : facts02.GoodRT := ⟨by decide, by decide, by decide, by decide⟩

/-- D10: MessagePackDocument finds the request body under a `str` as well as a `bytes` method name -/
theorem facts02_mp : facts02.mpNameAnyKey = true := by decide

/-- Every member value that conforms to its declared type — any nesting of objects, wrapped arrays and repeated
    members, `None` where nillable, integers of any magnitude in JSON/YAML — is written by `_object_to_doc` and
    read back by `_from_dict_value` as the same native value, for every self-consistent configuration. -/
theorem hier_roundtrip (cfg : Cfg) (hsc : cfg.selfConsistent = true)
    (R : Registry) (t : Ty) (v : Val)
    (hr : t.occ.repeated = false) (hwf : wfTy t = true) (hc : conforms t v = true)
    (hmp : cfg.proto.isMsgpack = true → fitsV facts08 v = true ∧ mpReadable t = true)
    (hpl : plain cfg.complexAs t v = true) :
    decode facts08 facts02 cfg R t (encode facts08 cfg R t v) = .good v :=
  member_roundtrip R (ownCtx leafLaws08 facts02_rt hsc) t v hr hwf hc
    (fun hm => ⟨(hmp hm).1, fun _ => (hmp hm).2⟩) hpl

/-- A request written the way the protocol itself writes documents, for conformant arguments, invokes the user
    function with exactly those arguments (request decoding incl. the method-name envelope). -/
theorem hier_request_fidelity (cfg : Cfg) (hsc : cfg.selfConsistent = true)
    (R : Registry) (name ns : Text) (base : Option Text) (fields : Fields) (o : Occ) (args : List (Text × Val))
    (hwf : wfTy (.obj name ns base fields o) = true) (hc : conformsFields fields args = true)
    (hmp : cfg.proto.isMsgpack = true → fitsFields facts08 args = true ∧ mpReadableFields fields = true)
    (hpl : plainFields cfg.complexAs fields args = true)
    (hnm : cfg.notWrapped.contains name = false) :
    decodeRequest facts08 facts02 cfg R (.obj name ns base fields o)
      (requestDoc cfg (ownSpell facts08 cfg) R (.obj name ns base fields o) (.obj name args)) = .good (.obj name args) :=
  request_roundtrip R (ownCtx leafLaws08 facts02_rt hsc) (reqKey_keyOut _ rfl) name ns base fields o args hwf hc
    (fun hm => by have := hmp hm; exact ⟨by simpa [fitsV] using this.1, fun _ => by simpa [mpReadable] using this.2⟩)
    (by simpa [plain, ownSpell] using hpl) hnm

/-- **Both ends.** What `serialize(REQUEST)` of the protocol itself writes for conformant arguments — the input message through
    `_object_to_doc` (T2: `hier.client-request`) — is read by `deserialize(REQUEST)` of the same configuration as exactly those
    arguments, whenever the written request still names the method: MessagePack-RPC (method name in the envelope) or
    `ignore_wrappers=False`. (With `ignore_wrappers=True` the other protocols write the request without the method name:
    known finding `client:ignore-wrappers-request-without-method-name`.) -/
theorem hier_client_request_roundtrip (cfg : Cfg) (hsc : cfg.selfConsistent = true)
    (hw : cfg.proto = .msgpackRpc ∨ cfg.ignoreWrappers = false)
    (R : Registry) (name ns : Text) (base : Option Text) (fields : Fields) (o : Occ) (args : List (Text × Val))
    (hwf : wfTy (.obj name ns base fields o) = true) (hc : conformsFields fields args = true)
    (hmp : cfg.proto.isMsgpack = true → fitsFields facts08 args = true ∧ mpReadableFields fields = true)
    (hpl : plainFields cfg.complexAs fields args = true)
    (hnm : cfg.notWrapped.contains name = false) :
    decodeRequest facts08 facts02 cfg R (.obj name ns base fields o)
      (encode facts08 cfg R (.obj name ns base fields o) (.obj name args)) = .good (.obj name args) := by
  have h := hier_request_fidelity cfg hsc R name ns base fields o args hwf hc hmp hpl hnm
  have he : encode facts08 cfg R (.obj name ns base fields o) (.obj name args)
      = encOne R (ownSpell facts08 cfg) (.obj name ns base fields o) (.obj name args) :=
    encode_eq_encOne R (ownSpell facts08 cfg) _ _ (by simp) (by intro vs hv; cases hv)
  have hr : requestDoc cfg (ownSpell facts08 cfg) R (.obj name ns base fields o) (.obj name args)
      = encOne R (ownSpell facts08 cfg) (.obj name ns base fields o) (.obj name args) := by
    simp only [requestDoc, ownSpell]
    rcases hw with h' | h' <;> simp [h']
  rw [he, ← hr]; exact h

/-- The documented alternative spellings are understood by every configuration: `str` keys, numbers as numbers,
    dates / durations / enumerations / base64 as `str` text (MessagePack: raw `bin` for plain byte arrays, text for
    integers outside the 64-bit window), objects as maps or — `cas = list` — as positional lists for fully populated
    objects, whatever `complex_as` the server is configured with. No restriction on the leaf kinds for MessagePack. -/
theorem hier_decodes_conventional (cfg : Cfg) (cas : ComplexAs) (hcas : cas = .dict ∨ cfg.ignoreWrappers = true)
    (R : Registry) (name ns : Text) (base : Option Text) (fields : Fields) (o : Occ) (args : List (Text × Val))
    (hwf : wfTy (.obj name ns base fields o) = true) (hc : conformsFields fields args = true)
    (hmp : cfg.proto.isMsgpack = true → fitsFields facts08 args = true)
    (hpl : plainFields cas fields args = true)
    (hnm : cfg.notWrapped.contains name = false) :
    decodeRequest facts08 facts02 cfg R (.obj name ns base fields o)
      (requestDoc cfg (convSpell facts08 cfg cas) R (.obj name ns base fields o) (.obj name args)) = .good (.obj name args) :=
  request_roundtrip R (convCtx leafLaws08 facts02_rt cas hcas) (reqKey_str facts02_mp _ rfl) name ns base fields o args hwf hc
    (fun hm => ⟨by simpa [fitsV] using hmp hm, fun h => by cases h⟩)
    (by simpa [plain, convSpell] using hpl) hnm

/-- MessagePack clients may mix: `bytes` keys with `str` text leaves (`bk = true`), or `str` keys with the `bin`
    leaves the protocol itself writes (`bk = false`, readable leaf kinds). -/
theorem hier_decodes_msgpack_keys (cfg : Cfg) (cas : ComplexAs) (bk : Bool) (hcas : cas = .dict ∨ cfg.ignoreWrappers = true)
    (R : Registry) (name ns : Text) (base : Option Text) (fields : Fields) (o : Occ) (args : List (Text × Val))
    (hwf : wfTy (.obj name ns base fields o) = true) (hc : conformsFields fields args = true)
    (hmp : cfg.proto.isMsgpack = true → fitsFields facts08 args = true ∧ (bk = false → mpReadableFields fields = true))
    (hpl : plainFields cas fields args = true)
    (hnm : cfg.notWrapped.contains name = false) :
    decodeRequest facts08 facts02 cfg R (.obj name ns base fields o)
      (requestDoc cfg (mixSpell facts08 cfg cas bk) R (.obj name ns base fields o) (.obj name args)) = .good (.obj name args) := by
  have hK : ReqKey facts02 cfg (mixSpell facts08 cfg cas bk) := by
    cases bk
    · exact reqKey_str facts02_mp _ rfl
    · exact reqKey_keyOut _ rfl
  exact request_roundtrip R (mixCtx leafLaws08 facts02_rt cas bk hcas) hK name ns base fields o args hwf hc
    (fun hm => by
      have := hmp hm
      exact ⟨by simpa [fitsV] using this.1, fun h => by simpa [mpReadable] using this.2 (by simpa using h)⟩)
    (by simpa [plain, mixSpell] using hpl) hnm

/-- What `serialize` writes for a conformant return value — `None` included — decodes, by the same conventions, to
    exactly the value returned. -/
theorem hier_response_fidelity (cfg : Cfg) (hsc : cfg.selfConsistent = true)
    (R : Registry) (method : Text) (ret : Ty) (v : Val)
    (hr : ret.occ.repeated = false) (hwf : wfTy ret = true) (hc : conforms ret v = true)
    (hmp : cfg.proto.isMsgpack = true → fitsV facts08 v = true ∧ mpReadable ret = true)
    (hpl : plain cfg.complexAs ret v = true)
    (hnone : v = .none → cfg.complexAs = .dict) :
    decodeResponse facts08 facts02 cfg R method ret (encodeResponse facts08 cfg R method ret v) = .good v :=
  response_roundtrip leafLaws08 facts02_rt hsc R method ret v hr hwf hc
    (fun hm => ⟨(hmp hm).1, fun _ => (hmp hm).2⟩) hpl hnone

/-- the cycle guard of `_object_to_doc` is path-local in /repo: `_get_member_pairs` hands a copy of the set to the
    members (`tags | {id(inst)}`), so the set holds ancestors only -/
theorem facts02_guard : facts02.guardPathLocal = true := by decide

/-- a ByteArray value given in chunks is encoded as the concatenation of its chunks (witness `[b'a', b'bcd']` for base64, hex
    and urlsafe members): chunking is below the model, `Val.bytes` is the concatenation -/
theorem facts02_bytes_join : facts02.bytesJoinBeforeEncode = true := by decide

/-- both branches of `_complex_to_dict` (str keys: json / yaml; encoded keys: MessagePack) write a `not_wrapped` class without its
    wrapper when wrappers are kept -/
theorem facts02_not_wrapped : facts02.notWrappedStrKeys = true ∧ facts02.notWrappedBytesKeys = true := ⟨by decide, by decide⟩

/-- so the spelling the code uses is the spelling the round-trip theorems are about: `not_wrapped` classes (`cfg.notWrapped`)
    travel without a wrapper in both directions, in every protocol -/
theorem ownSpellG_eq (cfg : Cfg) : ownSpellG facts08 facts02 cfg = ownSpell facts08 cfg := by
  simp [ownSpellG, ownSpell, facts02_not_wrapped.1, facts02_not_wrapped.2]

/-- **The document depends on the value, not on object identity.** Whatever Python objects the nodes of a returned
    value are (`ids`: the same `ComplexModel` instance may sit in several members of one object, in several slots of
    one array, in cousins …), as long as no object contains itself, `_object_to_doc` with its cycle guard writes
    exactly the document of the plain value tree: nothing is dropped, no array is thrown away. -/
theorem hier_encoding_ignores_identity (cfg : Cfg) (R : Registry) (t : Ty) (v : Val) (ids : Ids)
    (hac : acyclic [] ids = true) :
    encodeIds facts08 cfg R facts02 t v ids = encode facts08 cfg R t v := by
  simp only [encodeIds, facts02_guard, Bool.not_true, encode, encodeG_local _ R t v ids [] hac, ownSpellG_eq]

/-- two presentations of one value — aliased or built from distinct objects — are written identically -/
theorem hier_aliasing_invisible (cfg : Cfg) (R : Registry) (t : Ty) (v : Val) (ids ids' : Ids)
    (hac : acyclic [] ids = true) (hac' : acyclic [] ids' = true) :
    encodeIds facts08 cfg R facts02 t v ids = encodeIds facts08 cfg R facts02 t v ids' := by
  rw [hier_encoding_ignores_identity cfg R t v ids hac, hier_encoding_ignores_identity cfg R t v ids' hac']

/-- response fidelity for results with shared sub-objects: the response written for a conformant value decodes to
    exactly that value, however its nodes are shared -/
theorem hier_response_fidelity_aliased (cfg : Cfg) (hsc : cfg.selfConsistent = true)
    (R : Registry) (method : Text) (ret : Ty) (v : Val) (ids : Ids) (hac : acyclic [] ids = true)
    (hr : ret.occ.repeated = false) (hwf : wfTy ret = true) (hc : conforms ret v = true)
    (hmp : cfg.proto.isMsgpack = true → fitsV facts08 v = true ∧ mpReadable ret = true)
    (hpl : plain cfg.complexAs ret v = true)
    (hnone : v = .none → cfg.complexAs = .dict) :
    decodeResponse facts08 facts02 cfg R method ret (encodeResponseIds facts08 cfg R facts02 method ret v ids) = .good v := by
  have h : encodeResponseIds facts08 cfg R facts02 method ret v ids = encodeResponse facts08 cfg R method ret v := by
    simp only [encodeResponseIds, encodeResponse, hier_encoding_ignores_identity cfg R ret v ids hac]
  rw [h]
  exact hier_response_fidelity cfg hsc R method ret v hr hwf hc hmp hpl hnone

/-- JSON and YAML carry integers of any magnitude natively: no bound, no length guard. -/
theorem bigint_survives (cfg : Cfg) (hj : cfg.proto.isMsgpack = false) (r : Range) (o : Occ) (i : Int)
    (hrange : r.holds i = true) :
    primIn facts08 facts02 cfg (.integer .unbounded r) o (leafOut facts08 cfg (.integer .unbounded r) (.int i)) = .good (.int i) := by
  have hv : (PrimTy.integer .unbounded r).valueOk (.int i) = true := by simp [PrimTy.valueOk, IntKind.lo, IntKind.hi, hrange]
  exact primIn_leafOut leafLaws08 facts02 cfg _ o _ hv (fun h => by simp [hj] at h) (fun h => by simp [hj] at h)

/-- MessagePack: integers inside [-2^63, 2^64) travel natively, all others as decimal text (`bin`), and survive as
    long as the text passes the `max_str_len` guard of the unbounded Integer. -/
theorem bigint_survives_msgpack (cfg : Cfg) (hm : cfg.proto.isMsgpack = true) (r : Range) (o : Occ) (i : Int)
    (hrange : r.holds i = true) (hfit : (intToText i).length ≤ facts08.intMaxStrLen .unbounded) :
    primIn facts08 facts02 cfg (.integer .unbounded r) o (leafOut facts08 cfg (.integer .unbounded r) (.int i)) = .good (.int i) := by
  have hv : (PrimTy.integer .unbounded r).valueOk (.int i) = true := by simp [PrimTy.valueOk, IntKind.lo, IntKind.hi, hrange]
  exact primIn_leafOut leafLaws08 facts02 cfg _ o _ hv (fun _ => by simpa [fitsV, fitsInt] using hfit) (fun _ => rfl)

/-- Every Unicode scalar value survives the UTF-8 form MessagePack text and keys travel in. -/
theorem utf8_roundtrip (t : Text) : utf8Dec (utf8Enc t) = some t := utf8Dec_utf8Enc t

/-! ### non-vacuity -/

def exInner : Ty := .obj "Inner".toList "tns".toList none
  [("a".toList, .prim (.integer .i8 {}) {}), ("s".toList, .prim (.unicode 0 none none []) { maxOccurs := some 3 })] {}
def exMsg : Ty := .obj "f".toList "tns".toList none
  [("o".toList, exInner), ("l".toList, .arr "m".toList (.prim .date {}) {})] {}
def exArgs : List (Text × Val) :=
  [("o".toList, .obj "Inner".toList [("a".toList, .int (-128)), ("s".toList, .list [.str "hé".toList, .str []])]),
   ("l".toList, .list [.date ⟨2024, 2, 29⟩, .none])]
def exCfg : Cfg := ⟨.json, .soft, false, .dict, false, false, true, [], []⟩

example : wfTy exMsg = true := by decide
example : conformsFields [("o".toList, exInner), ("l".toList, .arr "m".toList (.prim .date {}) {})] exArgs = true := by
  simp [exArgs, exInner, conformsFields, conforms, conformsOne, conformsItems, conformsArr, Ty.occ, Occ.repeated,
    Occ.countOk, PrimTy.valueOk, IntKind.lo, IntKind.hi, Range.holds, Date.valid, daysInMonth, isLeap]
example : plainFields .dict [("o".toList, exInner), ("l".toList, .arr "m".toList (.prim .date {}) {})] exArgs = true := by decide
example : exCfg.selfConsistent = true := by decide

/-- `Seg(start=p, end=p, more=[q, r, q])`: `p` (id 1) in two members, `q` (id 2) in two slots -/
def exAliased : Ids := .node (some 0) [.node (some 1) [], .node (some 1) [], .node none [.node (some 2) [], .node (some 3) [], .node (some 2) []]]
example : acyclic [] exAliased = true := by decide
/-- a genuine cycle is not acyclic -/
example : acyclic [] (.node (some 0) [.node (some 1) [.node (some 0) []]]) = false := by decide

end SpyneModel.Props.C02
