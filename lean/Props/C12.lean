/-
  C12 — concurrent requests do not interfere; the lazy WSDL is built once and served whole.

  Property theorems only.  Every theorem is about the model instantiated with the facts regenerated
  from /repo on every run (`Generated.facts12`: the synchronisation skeleton of the WSDL handler
  taken from the ast, the publication order of every cache, how the validator's error text is read,
  the unclassified shared writes seen by the snapshot probe); side conditions by `decide`.

  The claim is PARTIAL by design (DESIGN.md §4 C12): what is proved is the synchronisation logic —
  which shared locations are read and written in which order under which lock — for every schedule
  (`List Nat`, unbounded) and any number of threads (thread ids are arbitrary naturals).  One
  modelled step is one Python-level load/store of a shared attribute or one call boundary; CPython's
  atomicity below that, lxml releasing the GIL inside `validate`, `WeakKeyDictionary` internals and
  memory effects are assumptions, exercised only by the real-thread runs of the harness (T2/T3).
-/
import Proofs.ConcSys
import SpyneModel.Generated.Facts12
namespace SpyneModel.Props.C12
open SpyneModel.Conc SpyneModel.Generated

/-! ### the whole system: any mix of `?wsdl` and RPC requests on one instance -/

/-- FULL STATEMENT.  Whatever the requests, however many, under every interleaving: a caller that
    receives a response receives exactly the response the same request gets when it is processed
    alone.  (No injected build failure here; with failures see `wsdl_once_and_whole`.) -/
theorem concurrent_requests_do_not_interfere (reqs : List Req) (hf : ∀ q ∈ reqs, q.Faithful facts12)
    (sched : List Nat) (i : Nat) (hi : i < reqs.length) (r : Resp)
    (hr : (sysRun facts12 allOk (sysInit reqs) sched).response i = some r) :
    alone facts12 reqs[i] = some r :=
  sys_main facts12 (by decide) reqs hf sched i hi r hr

/-- … and `build_interface_document` runs at most once -/
theorem wsdl_built_at_most_once (reqs : List Req) (sched : List Nat) :
    (sysRun facts12 allOk (sysInit reqs) sched).w.builds ≤ 1 :=
  sys_builds facts12 (by decide) reqs sched

/-- what "processed alone" yields: the sequential document … -/
theorem alone_wsdl_is_the_sequential_document : alone facts12 .wsdl = some (.doc (.doc (some .whole))) :=
  alone_wsdl facts12 (by decide)

/-- … and for an RPC request, the values a sequential run computes -/
theorem alone_rpc_is_the_sequential_response (a : Nat) (inv : Bool) (p : List ROp)
    (hq : (Req.rpc a inv p).Faithful facts12) :
    alone facts12 (.rpc a inv p) = some (.body (soloObs a inv p none (fun _ => none))) :=
  alone_rpc facts12 (by decide) a inv p hq

-- non-vacuity: two racing `?wsdl` requests, a schema-invalid request and a request that fills
-- two caches; an interleaved schedule after which all four have their (sequential) responses
private def demoReqs : List Req :=
  [ .wsdl, .wsdl, .rpc 7 true [.validate, .readErr],
    .rpc 8 false [.validate, .probe ⟨.attr, 1, true⟩, .publish ⟨.attr, 1, true⟩, .probe ⟨.sort, 2, false⟩] ]
private def demoSched : List Nat :=
  [0, 1, 0, 1, 2, 3, 0, 1, 3, 2, 3, 3] ++ List.replicate 23 1 ++ List.replicate 23 0
example : ∀ q ∈ demoReqs, q.Faithful facts12 := by decide +kernel
example : (sysRun facts12 allOk (sysInit demoReqs) demoSched).response 1 = some (.doc (.doc (some .whole))) := by decide +kernel
example : (sysRun facts12 allOk (sysInit demoReqs) demoSched).response 0 = some (.doc (.doc (some .whole))) := by decide +kernel
example : (sysRun facts12 allOk (sysInit demoReqs) demoSched).response 2 = some (.body [.err (some 7)]) := by decide +kernel
example : (sysRun facts12 allOk (sysInit demoReqs) demoSched).w.builds = 1 := by decide +kernel

/-! ### the lazy WSDL handler (skeleton incl. its try/except/finally structure taken from the ast of /repo)

  `O : Nat → Fail` is an adversary that decides for every execution of `build_interface_document`
  whether it succeeds, raises before touching anything, or raises after the portType / service
  elements exist; every theorem of this section holds for every schedule AND every `O`. -/

private theorem resets_ok (O : Nat → Fail) : (facts12.cfg O).resets = true :=
  show facts12.builderResets = true by decide

private theorem reach (O : Nat → Fail) (sched : List Nat) :
    GInv (facts12.cfg O) (run (facts12.cfg O) facts12.wsdlSkeleton init sched) := by
  have hsk : facts12.wsdlSkeleton = expectedSkeleton := by decide
  rw [hsk]
  exact ginv_reachable (facts12.cfg O) (resets_ok O) sched

/-- for every schedule, any number of racing requesters and any build outcomes: at most one build
    ever succeeds; every requester that is answered is handed the complete sequential document or
    (only if its own build raised) the 500 of the `except` clause; the cached and the published
    document are never anything but the complete one; a thread that has answered does not hold the
    lock -/
theorem wsdl_once_and_whole (O : Nat → Fail) (sched : List Nat) :
    let s := run (facts12.cfg O) facts12.wsdlSkeleton init sched
    s.succ ≤ 1 ∧ (∀ i a, s.responded i = some a → a = .doc (some .whole) ∨ a = .error) ∧
    (s.cache = none ∨ s.cache = some .whole) ∧ (s.pub = none ∨ s.pub = some .whole) ∧
    (∀ i, s.responded i ≠ none → s.lock ≠ some i) := by
  intro s
  have h : GInv (facts12.cfg O) s := reach O sched
  refine ⟨h.b1, fun i a ha => ?_, h.cache_ok, h.pub_ok, fun i hi => finished_not_holding _ s h i hi⟩
  rcases (h.thr i).resp_ok with h0 | h0 | h0 <;> simp [State.responded, h0] at ha
  · exact Or.inl ha.symm
  · exact Or.inr ha.symm

/-- when no build fails, nobody is answered 500 and the build runs at most once -/
theorem wsdl_without_failures (sched : List Nat) :
    let s := run (facts12.cfg allOk) facts12.wsdlSkeleton init sched
    s.builds ≤ 1 ∧ ∀ i a, s.responded i = some a → a = .doc (some .whole) := by
  intro s
  have h : GInv (facts12.cfg allOk) s := reach allOk sched
  refine ⟨builds_le_one _ s h (no_failure_allOk _), fun i a ha => ?_⟩
  rcases (h.thr i).resp_ok with h0 | h0 | h0
  · simp [State.responded, h0] at ha
  · simp [State.responded, h0] at ha; exact ha.symm
  · exact absurd ((h.thr i).e1 (Or.inr (Or.inr h0))) (no_failure_allOk _)

/-- after a failed build the next requester builds: whenever the lock is free, either no build has
    succeeded yet (and the cache is still empty) or the cache holds the document -/
theorem wsdl_failed_build_is_retried (O : Nat → Fail) (sched : List Nat) :
    let s := run (facts12.cfg O) facts12.wsdlSkeleton init sched
    s.lock = none → (s.succ = 0 ∧ s.cache = none) ∨ s.cache = some .whole := by
  intro s hl
  have h : GInv (facts12.cfg O) s := reach O sched
  rcases h.free hl with h0 | h0
  · exact Or.inl ⟨h0, (h.b0 h0).2⟩
  · exact Or.inr h0

/-- once `_wsdl` holds the document it holds it for good (it never goes back to `None`) -/
theorem wsdl_cache_never_reverts (O : Nat → Fail) (sched more : List Nat) (d : Doc)
    (h : (run (facts12.cfg O) facts12.wsdlSkeleton init sched).cache = some d) :
    (run (facts12.cfg O) facts12.wsdlSkeleton init (sched ++ more)).cache = some .whole ∧ d = .whole := by
  have hinv := reach O sched
  have hsk : facts12.wsdlSkeleton = expectedSkeleton := by decide
  rw [hsk] at h hinv ⊢
  have hd : d = .whole := by
    rcases hinv.cache_ok with h0 | h0
    · rw [h0] at h; cases h
    · rw [h0] at h; cases h; rfl
  subst hd
  rw [run_append]
  exact ⟨cache_stays_run _ (resets_ok O) more _ hinv h, rfl⟩

/-- the locked region (from `acquire` to the `release` of either exit) is entered by one thread at a time -/
theorem wsdl_mutual_exclusion (O : Nat → Fail) (sched : List Nat) (i j : Nat) :
    let s := run (facts12.cfg O) facts12.wsdlSkeleton init sched
    held (s.loc i).pc → held (s.loc j).pc → i = j := by
  intro s hi hj
  exact mutex_of_ginv _ s (reach O sched) i j hi hj

/-- no deadlock, whatever fails: while some requester is unanswered, some thread can move -/
theorem wsdl_no_deadlock (O : Nat → Fail) (sched : List Nat) (i : Nat) :
    let s := run (facts12.cfg O) facts12.wsdlSkeleton init sched
    s.responded i = none → ∃ j, stuck facts12.wsdlSkeleton s j = false := by
  have hsk : facts12.wsdlSkeleton = expectedSkeleton := by decide
  intro s hi
  have h : GInv (facts12.cfg O) s := reach O sched
  rw [hsk]
  apply not_all_stuck _ s h i
  have hi' := (h.thr i).resp_iff
  have := (h.thr i).pc_le
  unfold State.responded at hi
  rcases Nat.lt_or_ge (s.loc i).pc 23 with hlt | hge
  · exact hlt
  · exact absurd hi (hi'.mp (by omega))

/-- every step that is not a skip moves its thread strictly forward and leaves the private state
    of every other thread alone: a requester is answered after at most 23 effective steps -/
theorem wsdl_progress (O : Nat → Fail) (sched : List Nat) (i j : Nat) :
    let s := run (facts12.cfg O) facts12.wsdlSkeleton init sched
    let s' := step (facts12.cfg O) facts12.wsdlSkeleton s i
    (stuck facts12.wsdlSkeleton s i = false → (s.loc i).pc < (s'.loc i).pc) ∧
    (j ≠ i → s'.loc j = s.loc j) ∧ (s'.loc i).pc ≤ 23 := by
  have hsk : facts12.wsdlSkeleton = expectedSkeleton := by decide
  intro s s'
  have h : GInv (facts12.cfg O) s := reach O sched
  have hs' : s' = step (facts12.cfg O) expectedSkeleton s i := by
    show step _ facts12.wsdlSkeleton s i = _
    rw [hsk]
  refine ⟨fun hs => ?_, fun hj => step_other _ _ s i j hj, ?_⟩
  · rw [hsk] at hs
    rw [hs']
    exact progress_step _ s i h hs
  · rw [hs']
    exact ((ginv_step _ (resets_ok O) s i h).thr i).pc_le

/-- the real scheduler hands the baton over only at shared accesses (macro steps); every such run
    is a run of the fine-grained semantics, so the theorems above cover it -/
theorem wsdl_scheduler_runs_are_covered (O : Nat → Fail) (msched : List Nat) :
    let s := runMacro (facts12.cfg O) facts12.wsdlSkeleton init msched
    s.succ ≤ 1 ∧ ∀ i a, s.responded i = some a → a = .doc (some .whole) ∨ a = .error := by
  intro s
  obtain ⟨l, hl⟩ := runMacro_is_run (facts12.cfg O) facts12.wsdlSkeleton msched init
  have h := wsdl_once_and_whole O l
  have hs : s = run (facts12.cfg O) facts12.wsdlSkeleton init l := hl
  rw [hs]
  exact ⟨h.1, h.2.1⟩

-- non-vacuity: the first build raises late while the second requester waits; it then builds and is served
example : (runMacro (facts12.cfg (fun k => if k = 0 then .late else .ok)) facts12.wsdlSkeleton init
    ([0, 1, 1, 0, 1, 0, 0, 1] ++ List.replicate 9 0 ++ List.replicate 12 1)).responded 1 = some (.doc (some .whole)) := by
  decide +kernel
example : (runMacro (facts12.cfg (fun k => if k = 0 then .late else .ok)) facts12.wsdlSkeleton init
    ([0, 1, 1, 0, 1, 0, 0, 1] ++ List.replicate 9 0 ++ List.replicate 12 1)).responded 0 = some .error := by
  decide +kernel

/-- the handler as pinned (unguarded write-back of what `get_interface_document()` returned) is NOT
    safe: a 2-thread schedule with two builds after which the second requester is served, and
    everybody after it is served from the cache, a truncated document (D20) -/
theorem pinned_handler_loses_the_document :
    (run (noFail false) pinnedSkeleton init raceSchedule).builds = 2 ∧
    (run (noFail false) pinnedSkeleton init raceSchedule).responded 0 = some (.doc (some .whole)) ∧
    (run (noFail false) pinnedSkeleton init raceSchedule).responded 1 = some (.doc (some .truncated)) ∧
    (run (noFail false) pinnedSkeleton init raceSchedule).cache = some .truncated :=
  pinned_race

/-- the lock released in an `else:` clause instead of `finally:`: the first build raises, its thread
    answers 500 and keeps the lock, the second requester is stuck forever -/
theorem lock_released_only_on_success_deadlocks :
    let s := run (firstFails .early true) elseReleaseSkeleton init (List.replicate 14 0 ++ List.replicate 30 1)
    s.responded 0 = some .error ∧ s.lock = some 0 ∧ s.responded 1 = none ∧
    stuck elseReleaseSkeleton s 1 = true ∧ stuck elseReleaseSkeleton s 0 = true :=
  else_release_deadlock

/-- a builder that keeps `port_type_dict` / `service_elt_dict` across builds: after a build that
    raised late, the retry serves and caches a truncated document — with the reset it is complete -/
theorem builder_must_reset_its_dicts :
    (let s := run (firstFails .late false) expectedSkeleton init (List.replicate 16 0 ++ List.replicate 22 1)
     s.responded 0 = some .error ∧ s.responded 1 = some (.doc (some .truncated)) ∧ s.cache = some .truncated) ∧
    (let s := run (firstFails .late true) expectedSkeleton init (List.replicate 16 0 ++ List.replicate 22 1)
     s.responded 0 = some .error ∧ s.responded 1 = some (.doc (some .whole)) ∧ s.cache = some .whole ∧
     s.lock = none ∧ s.builds = 2 ∧ s.succ = 1) :=
  ⟨dirty_builder_after_failed_build, clean_builder_after_failed_build⟩

/-! ### shared caches and the shared validator -/

/-- for every schedule and any programs: a request thread that has finished observed exactly what
    it observes alone, provided each of its operations is `Safe` for the regenerated facts
    (with good facts: everything except parking request data on a shared object) -/
theorem requests_with_safe_operations_do_not_interfere (reqs : List RLocal)
    (h : ∀ l ∈ reqs, ∀ op ∈ l.todo, op.Safe facts12.rfacts) (sched : List Nat) (i : Nat)
    (hfin : ((rrun facts12.rfacts (rinit reqs) sched).loc i).finished = true) :
    ((rrun facts12.rfacts (rinit reqs) sched).loc i).obs = soloResponse ((rinit reqs).loc i) :=
  requests_alone facts12.rfacts reqs h sched i hfin

/-- with the regenerated facts every operation but park/unpark is safe -/
theorem every_modelled_operation_is_safe (op : ROp) (h : op.isPark = false) : op.Safe facts12.rfacts :=
  good_safe facts12 (by decide) op h

/-- the caches are transparent whatever else the requests do: a cell holds nothing or f(key), and
    every value a lookup ever returned is f(key) — `_attrcache`, `_sortcache`, `memoize`, `cdict` -/
theorem cache_transparent (reqs : List RLocal) (hobs : ∀ l ∈ reqs, l.obs = []) (sched : List Nat) :
    let s := rrun facts12.rfacts (rinit reqs) sched
    (∀ k v, s.table k = some v → v = .full) ∧ ∀ i k v, Obs.val k v ∈ (s.loc i).obs → v = .full := by
  have hF : ∀ c, facts12.rfacts.order c = .afterInit := by intro c; cases c <;> decide
  intro s
  have h0 : ∀ k v, (rinit reqs).table k = some v → v = .full := by intro k v; simp [rinit]
  refine ⟨graph_run _ hF sched _ h0, fun i => ?_⟩
  apply obsfull_run _ hF sched i _ h0
  intro k v hm
  rw [rinit_loc, List.getD_eq_getElem?_getD] at hm
  by_cases hi : i < reqs.length
  · rw [List.getElem?_eq_getElem hi] at hm
    simp [hobs _ (List.getElem_mem hi)] at hm
  · rw [List.getElem?_eq_none (by omega)] at hm
    simp at hm

/-! ### per-request state -/

/-- every operation of the request touches only its own context and the caches (nothing is parked on a shared object) -/
def OwnContextOnly (l : RLocal) : Prop := ∀ op ∈ l.todo, op.isPark = false

/-- NO CROSS TALK.  If handlers write only their own context (cells `setCtx`/`getCtx`, which the measured
    fact `sharedContextCells = []` makes private) and fill caches, then for every interleaving every
    finished request observed — response headers, status, body — exactly what it observes alone. -/
theorem no_cross_talk (reqs : List RLocal) (h : ∀ l ∈ reqs, OwnContextOnly l) (sched : List Nat) (i : Nat)
    (hfin : ((rrun facts12.rfacts (rinit reqs) sched).loc i).finished = true) :
    ((rrun facts12.rfacts (rinit reqs) sched).loc i).obs = soloResponse ((rinit reqs).loc i) :=
  requests_alone facts12.rfacts reqs
    (fun l hl op hop => good_safe facts12 (by decide) op (h l hl op hop)) sched i hfin

-- non-vacuity: two requests set and read back the same context cell, interleaved
example :
    let reqs := [mkReq 5 false [.setCtx 0, .getCtx 0], mkReq 6 false [.setCtx 0, .getCtx 0], mkReq 7 false [.getCtx 0]]
    ((rrun facts12.rfacts (rinit reqs) [0, 1, 2, 0, 1]).loc 0).obs = [.scr (some 5)] ∧
    ((rrun facts12.rfacts (rinit reqs) [0, 1, 2, 0, 1]).loc 2).obs = [.scr none] := by
  decide +kernel

/-! ### each side condition is needed (and each witness is what the harness replays on real threads) -/

private def kPa : Key := ⟨.attr, 0, true⟩

/-- `get_cls_attrs` storing the entry before `attr.update(prot_attrs)`: a second thread reads the
    half-initialised entry -/
theorem attr_publication_order_matters :
    let F : RFacts := { order := fun _ => .beforeInit, errRead := .underLock }
    let reqs := [mkReq 0 false [.probe kPa, .publish kPa, .complete kPa], mkReq 1 false [.probe kPa]]
    ((rrun F (rinit reqs) [0, 0, 1]).loc 1).obs = [.val kPa .half] ∧
    soloResponse ((rinit reqs).loc 1) = [.val kPa .full] := by
  decide

/-- reading `error_log.last_error` in a separate step: a validation by another thread in between
    replaces the error text (here: by "None") -/
theorem error_log_read_must_be_atomic :
    let F : RFacts := { order := fun _ => .afterInit, errRead := .racy }
    let reqs := [mkReq 5 true [.validate, .readErr], mkReq 6 false [.validate]]
    ((rrun F (rinit reqs) [0, 1, 0]).loc 0).obs = [.err none] ∧
    soloResponse ((rinit reqs).loc 0) = [.err (some 5)] := by
  decide

/-- per-request data parked on a shared object reaches the wrong caller -/
theorem parked_request_data_crosses_threads :
    let F : RFacts := { order := fun _ => .afterInit, errRead := .underLock }
    let reqs := [mkReq 5 false [.park 0, .unpark 0], mkReq 6 false [.park 0, .unpark 0]]
    ((rrun F (rinit reqs) [0, 1, 0, 1]).loc 0).obs = [.scr (some 6)] ∧
    soloResponse ((rinit reqs).loc 0) = [.scr (some 5)] := by
  decide

/-- a protocol instance shared by the requests that switch to it and bound by its first user: when
    binding an already bound instance raises, the loser of the test-then-bind race fails -/
theorem rebinding_a_shared_protocol_fails_the_loser :
    let F : RFacts := { order := fun _ => .afterInit, errRead := .underLock, rebindRaises := true }
    let k : Key := ⟨.bind, 0, false⟩
    let reqs := [mkReq 1 false [.probe k, .publish k, .probe k], mkReq 2 false [.probe k, .publish k, .probe k]]
    ((rrun F (rinit reqs) [0, 1, 1, 0, 0, 1]).loc 0).obs = [.val k .full, .exc, .val k .full] ∧
    soloResponse ((rinit reqs).loc 0) = [.val k .full, .val k .full] ∧
    -- … and without the exception both are served as if alone
    ((rrun { F with rebindRaises := false } (rinit reqs) [0, 1, 1, 0, 0, 1]).loc 0).obs = [.val k .full, .val k .full] := by
  decide

/-- a context cell that lives on a class (e.g. `resp_headers` as a class-level dict) is one object for
    all requests: a request that never set the cell reads another request's value -/
theorem shared_context_cell_crosses_threads :
    let F : RFacts := { order := fun _ => .afterInit, errRead := .underLock, ctxShared := fun _ => true }
    let reqs := [mkReq 5 false [.getCtx 0], mkReq 6 false [.setCtx 0, .getCtx 0]]
    ((rrun F (rinit reqs) [1, 0, 1]).loc 0).obs = [.scr (some 6)] ∧
    soloResponse ((rinit reqs).loc 0) = [.scr none] := by
  decide

end SpyneModel.Props.C12
