/-
  C12 — concurrent requests do not interfere; the lazy WSDL is built once and served whole.

  Property theorems only.  Every theorem is about the model instantiated with the facts regenerated
  from /repo on every run (`Generated.facts12`: the synchronisation skeleton of the WSDL handler
  taken from the ast, the publication order of every cache, how the validator's error text is read,
  the unclassified shared writes seen by the snapshot probe); side conditions by `decide`.

  The claim is PARTIAL by design (DESIGN.md §4 C12): what is proved is the synchronisation logic —
  which shared locations are read and written in which order under which lock — for every schedule
  (`List Nat`, unbounded) and any number of threads (thread ids are arbitrary naturals).  One
  modelled step is one Python-level load/store of a shared attribute or one call boundary; CPython's
  atomicity below that, lxml releasing the GIL inside `validate`, `WeakKeyDictionary` internals and
  memory effects are assumptions, exercised only by the real-thread runs of the harness (T2/T3).
-/
import Proofs.ConcSys
import SpyneModel.Generated.Facts12
namespace SpyneModel.Props.C12
open SpyneModel.Conc SpyneModel.Generated

/-! ### the whole system: any mix of `?wsdl` and RPC requests on one instance -/

/-- FULL STATEMENT.  Whatever the requests, however many, under every interleaving: a caller that
    receives a response receives exactly the response the same request gets when it is processed
    alone. -/
theorem concurrent_requests_do_not_interfere (reqs : List Req) (hf : ∀ q ∈ reqs, q.Faithful facts12)
    (sched : List Nat) (i : Nat) (hi : i < reqs.length) (r : Resp)
    (hr : (sysRun facts12 (sysInit reqs) sched).response i = some r) :
    alone facts12 reqs[i] = some r :=
  sys_main facts12 (by decide) reqs hf sched i hi r hr

/-- … and `build_interface_document` runs at most once -/
theorem wsdl_built_at_most_once (reqs : List Req) (sched : List Nat) :
    (sysRun facts12 (sysInit reqs) sched).w.builds ≤ 1 :=
  sys_builds facts12 (by decide) reqs sched

/-- what "processed alone" yields: the sequential document … -/
theorem alone_wsdl_is_the_sequential_document : alone facts12 .wsdl = some (.doc (some .whole)) :=
  alone_wsdl facts12 (by decide)

/-- … and for an RPC request, the values a sequential run computes -/
theorem alone_rpc_is_the_sequential_response (a : Nat) (inv : Bool) (p : List ROp)
    (hq : (Req.rpc a inv p).Faithful facts12) :
    alone facts12 (.rpc a inv p) = some (.body (soloObs a inv p none (fun _ => none))) :=
  alone_rpc facts12 (by decide) a inv p hq

-- non-vacuity: two racing `?wsdl` requests, a schema-invalid request and a request that fills
-- two caches; an interleaved schedule after which all four have their (sequential) responses
private def demoReqs : List Req :=
  [ .wsdl, .wsdl, .rpc 7 true [.validate, .readErr],
    .rpc 8 false [.validate, .probe ⟨.attr, 1, true⟩, .publish ⟨.attr, 1, true⟩, .probe ⟨.sort, 2, false⟩] ]
private def demoSched : List Nat :=
  [0, 1, 0, 1, 2, 3, 0, 1, 3, 2, 3, 3] ++ List.replicate 18 1 ++ List.replicate 18 0
example : ∀ q ∈ demoReqs, q.Faithful facts12 := by decide +kernel
example : (sysRun facts12 (sysInit demoReqs) demoSched).response 1 = some (.doc (some .whole)) := by decide +kernel
example : (sysRun facts12 (sysInit demoReqs) demoSched).response 0 = some (.doc (some .whole)) := by decide +kernel
example : (sysRun facts12 (sysInit demoReqs) demoSched).response 2 = some (.body [.err (some 7)]) := by decide +kernel
example : (sysRun facts12 (sysInit demoReqs) demoSched).w.builds = 1 := by decide +kernel

/-! ### the lazy WSDL handler (skeleton taken from the ast of /repo) -/

/-- for every schedule and any number of racing requesters: one build at most, every requester
    that is answered is handed the complete sequential document, and the cached and the published
    document are never anything else -/
theorem wsdl_once_and_whole (sched : List Nat) :
    let s := run facts12.builderResets facts12.wsdlSkeleton init sched
    s.builds ≤ 1 ∧ (∀ i d, s.responded i = some d → d = some .whole) ∧
    (s.cache = none ∨ s.cache = some .whole) ∧ (s.pub = none ∨ s.pub = some .whole) := by
  have hsk : facts12.wsdlSkeleton = expectedSkeleton := by decide
  intro s
  have h : GInv s := by
    show GInv (run _ facts12.wsdlSkeleton init sched)
    rw [hsk]; exact ginv_reachable _ sched
  refine ⟨h.b1, fun i d hd => ?_, h.cache_ok, h.pub_ok⟩
  rcases (h.thr i).resp_ok with h0 | h0
  · simp [State.responded, h0] at hd
  · simp [State.responded, h0] at hd; exact hd.symm

/-- once `_wsdl` holds the document it holds it for good (it never goes back to `None`) -/
theorem wsdl_cache_never_reverts (sched more : List Nat) (d : Doc)
    (h : (run facts12.builderResets facts12.wsdlSkeleton init sched).cache = some d) :
    (run facts12.builderResets facts12.wsdlSkeleton init (sched ++ more)).cache = some .whole ∧ d = .whole := by
  have hsk : facts12.wsdlSkeleton = expectedSkeleton := by decide
  rw [hsk] at h ⊢
  have hinv := ginv_reachable facts12.builderResets sched
  have hd : d = .whole := by
    rcases hinv.cache_ok with h0 | h0
    · rw [h0] at h; cases h
    · rw [h0] at h; cases h; rfl
  subst hd
  rw [run_append]
  exact ⟨cache_stays_run _ more _ hinv h, rfl⟩

/-- the build region is entered by one thread at a time -/
theorem wsdl_mutual_exclusion (sched : List Nat) (i j : Nat) :
    let s := run facts12.builderResets facts12.wsdlSkeleton init sched
    8 ≤ (s.loc i).pc ∧ (s.loc i).pc ≤ 16 → 8 ≤ (s.loc j).pc ∧ (s.loc j).pc ≤ 16 → i = j := by
  have hsk : facts12.wsdlSkeleton = expectedSkeleton := by decide
  intro s hi hj
  have h : GInv s := by
    show GInv (run _ facts12.wsdlSkeleton init sched)
    rw [hsk]; exact ginv_reachable _ sched
  exact mutex_of_ginv s h i j hi hj

/-- no deadlock: while some requester is unanswered, some thread can move -/
theorem wsdl_no_deadlock (sched : List Nat) (i : Nat) :
    let s := run facts12.builderResets facts12.wsdlSkeleton init sched
    s.responded i = none → ∃ j, stuck facts12.wsdlSkeleton s j = false := by
  have hsk : facts12.wsdlSkeleton = expectedSkeleton := by decide
  intro s hi
  have h : GInv s := by
    show GInv (run _ facts12.wsdlSkeleton init sched)
    rw [hsk]; exact ginv_reachable _ sched
  rw [hsk]
  apply not_all_stuck s h i
  have hi' := (h.thr i).resp_iff
  have := (h.thr i).pc_le
  unfold State.responded at hi
  rcases Nat.lt_or_ge (s.loc i).pc 18 with hlt | hge
  · exact hlt
  · exact absurd hi (hi'.mp (by omega))

/-- every step that is not a skip moves its thread strictly forward and leaves the private state
    of every other thread alone: a requester is answered after at most 18 effective steps -/
theorem wsdl_progress (sched : List Nat) (i j : Nat) :
    let s := run facts12.builderResets facts12.wsdlSkeleton init sched
    let s' := step facts12.builderResets facts12.wsdlSkeleton s i
    (stuck facts12.wsdlSkeleton s i = false → (s.loc i).pc < (s'.loc i).pc) ∧
    (j ≠ i → s'.loc j = s.loc j) ∧ (s'.loc i).pc ≤ 18 := by
  have hsk : facts12.wsdlSkeleton = expectedSkeleton := by decide
  intro s s'
  have h : GInv s := by
    show GInv (run _ facts12.wsdlSkeleton init sched)
    rw [hsk]; exact ginv_reachable _ sched
  have hs' : s' = step facts12.builderResets expectedSkeleton s i := by
    show step _ facts12.wsdlSkeleton s i = _
    rw [hsk]
  refine ⟨fun hs => ?_, fun hj => step_other _ _ s i j hj, ?_⟩
  · rw [hsk] at hs
    rw [hs']
    exact progress_step facts12.builderResets s i hs
  · rw [hs']
    exact ((ginv_step facts12.builderResets s i h).thr i).pc_le

/-- the real scheduler hands the baton over only at shared accesses (macro steps); every such run
    is a run of the fine-grained semantics, so the theorem above covers it -/
theorem wsdl_scheduler_runs_are_covered (msched : List Nat) :
    let s := runMacro facts12.builderResets facts12.wsdlSkeleton init msched
    s.builds ≤ 1 ∧ ∀ i d, s.responded i = some d → d = some .whole := by
  intro s
  obtain ⟨l, hl⟩ := runMacro_is_run facts12.builderResets facts12.wsdlSkeleton msched init
  have h := wsdl_once_and_whole l
  have hs : s = run facts12.builderResets facts12.wsdlSkeleton init l := hl
  rw [hs]
  exact ⟨h.1, h.2.1⟩

example : (runMacro facts12.builderResets facts12.wsdlSkeleton init
    ([0, 1, 1, 0, 1, 0, 1, 1] ++ List.replicate 9 1 ++ List.replicate 4 0)).responded 0 = some (some .whole) := by
  decide +kernel

/-- the handler as pinned (unguarded write-back of what `get_interface_document()` returned) is NOT
    safe: a 2-thread schedule with two builds after which the second requester is served, and
    everybody after it is served from the cache, a truncated document (D20) -/
theorem pinned_handler_loses_the_document :
    (run false pinnedSkeleton init raceSchedule).builds = 2 ∧
    (run false pinnedSkeleton init raceSchedule).responded 0 = some (some .whole) ∧
    (run false pinnedSkeleton init raceSchedule).responded 1 = some (some .truncated) ∧
    (run false pinnedSkeleton init raceSchedule).cache = some .truncated :=
  pinned_race

/-! ### shared caches and the shared validator -/

/-- for every schedule and any programs: a request thread that has finished observed exactly what
    it observes alone, provided each of its operations is `Safe` for the regenerated facts
    (with good facts: everything except parking request data on a shared object) -/
theorem requests_with_safe_operations_do_not_interfere (reqs : List RLocal)
    (h : ∀ l ∈ reqs, ∀ op ∈ l.todo, op.Safe facts12.rfacts) (sched : List Nat) (i : Nat)
    (hfin : ((rrun facts12.rfacts (rinit reqs) sched).loc i).finished = true) :
    ((rrun facts12.rfacts (rinit reqs) sched).loc i).obs = soloResponse ((rinit reqs).loc i) :=
  requests_alone facts12.rfacts reqs h sched i hfin

/-- with the regenerated facts every operation but park/unpark is safe -/
theorem every_modelled_operation_is_safe (op : ROp) (h : op.isPark = false) : op.Safe facts12.rfacts :=
  good_safe facts12 (by decide) op h

/-- the caches are transparent whatever else the requests do: a cell holds nothing or f(key), and
    every value a lookup ever returned is f(key) — `_attrcache`, `_sortcache`, `memoize`, `cdict` -/
theorem cache_transparent (reqs : List RLocal) (hobs : ∀ l ∈ reqs, l.obs = []) (sched : List Nat) :
    let s := rrun facts12.rfacts (rinit reqs) sched
    (∀ k v, s.table k = some v → v = .full) ∧ ∀ i k v, Obs.val k v ∈ (s.loc i).obs → v = .full := by
  have hF : ∀ c, facts12.rfacts.order c = .afterInit := by intro c; cases c <;> decide
  intro s
  have h0 : ∀ k v, (rinit reqs).table k = some v → v = .full := by intro k v; simp [rinit]
  refine ⟨graph_run _ hF sched _ h0, fun i => ?_⟩
  apply obsfull_run _ hF sched i _ h0
  intro k v hm
  rw [rinit_loc, List.getD_eq_getElem?_getD] at hm
  by_cases hi : i < reqs.length
  · rw [List.getElem?_eq_getElem hi] at hm
    simp [hobs _ (List.getElem_mem hi)] at hm
  · rw [List.getElem?_eq_none (by omega)] at hm
    simp at hm

/-! ### per-request state -/

/-- every operation of the request touches only its own context and the caches (nothing is parked on a shared object) -/
def OwnContextOnly (l : RLocal) : Prop := ∀ op ∈ l.todo, op.isPark = false

/-- NO CROSS TALK.  If handlers write only their own context (cells `setCtx`/`getCtx`, which the measured
    fact `sharedContextCells = []` makes private) and fill caches, then for every interleaving every
    finished request observed — response headers, status, body — exactly what it observes alone. -/
theorem no_cross_talk (reqs : List RLocal) (h : ∀ l ∈ reqs, OwnContextOnly l) (sched : List Nat) (i : Nat)
    (hfin : ((rrun facts12.rfacts (rinit reqs) sched).loc i).finished = true) :
    ((rrun facts12.rfacts (rinit reqs) sched).loc i).obs = soloResponse ((rinit reqs).loc i) :=
  requests_alone facts12.rfacts reqs
    (fun l hl op hop => good_safe facts12 (by decide) op (h l hl op hop)) sched i hfin

-- non-vacuity: two requests set and read back the same context cell, interleaved
example :
    let reqs := [mkReq 5 false [.setCtx 0, .getCtx 0], mkReq 6 false [.setCtx 0, .getCtx 0], mkReq 7 false [.getCtx 0]]
    ((rrun facts12.rfacts (rinit reqs) [0, 1, 2, 0, 1]).loc 0).obs = [.scr (some 5)] ∧
    ((rrun facts12.rfacts (rinit reqs) [0, 1, 2, 0, 1]).loc 2).obs = [.scr none] := by
  decide +kernel

/-! ### each side condition is needed (and each witness is what the harness replays on real threads) -/

private def kPa : Key := ⟨.attr, 0, true⟩

/-- `get_cls_attrs` storing the entry before `attr.update(prot_attrs)`: a second thread reads the
    half-initialised entry -/
theorem attr_publication_order_matters :
    let F : RFacts := { order := fun _ => .beforeInit, errRead := .underLock }
    let reqs := [mkReq 0 false [.probe kPa, .publish kPa, .complete kPa], mkReq 1 false [.probe kPa]]
    ((rrun F (rinit reqs) [0, 0, 1]).loc 1).obs = [.val kPa .half] ∧
    soloResponse ((rinit reqs).loc 1) = [.val kPa .full] := by
  decide

/-- reading `error_log.last_error` in a separate step: a validation by another thread in between
    replaces the error text (here: by "None") -/
theorem error_log_read_must_be_atomic :
    let F : RFacts := { order := fun _ => .afterInit, errRead := .racy }
    let reqs := [mkReq 5 true [.validate, .readErr], mkReq 6 false [.validate]]
    ((rrun F (rinit reqs) [0, 1, 0]).loc 0).obs = [.err none] ∧
    soloResponse ((rinit reqs).loc 0) = [.err (some 5)] := by
  decide

/-- per-request data parked on a shared object reaches the wrong caller -/
theorem parked_request_data_crosses_threads :
    let F : RFacts := { order := fun _ => .afterInit, errRead := .underLock }
    let reqs := [mkReq 5 false [.park 0, .unpark 0], mkReq 6 false [.park 0, .unpark 0]]
    ((rrun F (rinit reqs) [0, 1, 0, 1]).loc 0).obs = [.scr (some 6)] ∧
    soloResponse ((rinit reqs).loc 0) = [.scr (some 5)] := by
  decide

/-- a context cell that lives on a class (e.g. `resp_headers` as a class-level dict) is one object for
    all requests: a request that never set the cell reads another request's value -/
theorem shared_context_cell_crosses_threads :
    let F : RFacts := { order := fun _ => .afterInit, errRead := .underLock, ctxShared := fun _ => true }
    let reqs := [mkReq 5 false [.getCtx 0], mkReq 6 false [.setCtx 0, .getCtx 0]]
    ((rrun F (rinit reqs) [1, 0, 1]).loc 0).obs = [.scr (some 6)] ∧
    soloResponse ((rinit reqs).loc 0) = [.scr none] := by
  decide

end SpyneModel.Props.C12
