/-
  C07 — WSDL/XSD are well-formed, closed, deterministic and drive a foreign client.
  Property theorems only; every theorem is about the model instantiated with the facts regenerated from /repo
  (`Generated.facts07`), side conditions discharged by `decide`.

  `build F e I url` = `gen F e (I.addMethodFaults F) url`: `addMethodFaults` is the step of `Interface.add_method`
  that moves declared faults into the tns, `gen` the model of `Wsdl11.build_interface_document`; `I` is the
  `Interface` (any number of
  services, methods, classes, namespaces), `e` the iteration order of every unordered container of the process
  (it stands for PYTHONHASHSEED and the memory layout), `wfCore` / `wfOps` the contract of `populate_interface`
  and of the `@rpc` declarations (evaluated by the harness on every real application).
-/
import Proofs.WsdlUnique
import SpyneModel.Generated.Facts07
namespace SpyneModel.Props.C07
open SpyneModel SpyneModel.Wsdl SpyneModel.Generated

/-! ### deterministic -/

/-- `sorted(set_of_namespaces)`: the order in which the set is enumerated is irrelevant -/
theorem import_order_independent (e₁ e₂ : Enum) (h₁ : e₁.Valid) (h₂ : e₂.Valid) (l : List String) :
    importOrder facts07 e₁ l = importOrder facts07 e₂ l :=
  importOrder_enum_irrelevant facts07 (by decide) e₁ e₂ h₁ h₂ l

/-- `toposort2`: ties between classes of equal `repr` are broken by registration order, never by a set -/
theorem toposort_order_independent (e₁ e₂ : Enum) (key : Nat → List Nat) (d : Deps) :
    topo facts07 e₁ key d = topo facts07 e₂ key d :=
  topo_enum_irrelevant facts07 (by decide) e₁ e₂ key d

/-- `toposort2` returns every class of the dependency graph (keys and dependencies), and only those -/
theorem toposort_complete (e : Enum) (he : e.Valid) (key : Nat → List Nat) (d : Deps) (ts : List (List Nat))
    (h : topo facts07 e key d = .ok ts) (hd : d ≠ []) (x : Nat) : x ∈ ts.flatten ↔ x ∈ Deps.nodes d :=
  topo_complete facts07 e he key d ts h hd x

/-- **building the document in any process yields the same document**: for every application and every two
    enumerations of the process' unordered containers (hash seeds, memory layouts, repetitions) -/
theorem wsdl_deterministic (e₁ e₂ : Enum) (h₁ : e₁.Valid) (h₂ : e₂.Valid) (I : IState) (url : String) :
    build facts07 e₁ I url = build facts07 e₂ I url :=
  gen_enum_irrelevant facts07 (by decide) (by decide) e₁ e₂ h₁ h₂ _ url

/-- the interface as `add_method` leaves it -/
abbrev populated (I : IState) : IState := (I.resolveHandlers facts07).addMethodFaults facts07

/-- `add_method` puts every declared fault into the target namespace, whatever `__namespace__` it declares: the
    fault clause of the contract holds by construction -/
theorem faults_in_tns (I : IState) (h : (populated I).wfCore = true) : (populated I).wf = true :=
  wf_of_core_forced facts07 (by decide) (I.resolveHandlers facts07) h

/-! ### closed -/

/-- every `message=` (portType operations, soap:header), binding `type=` and port `binding=` resolves -/
theorem message_porttype_binding_refs_closed (e : Enum) (I : IState) (url : String) (d : Doc)
    (h : build facts07 e I url = .ok d) (hwf : (populated I).wfCore = true) :
    (∀ q ∈ d.msgRefs, d.msgDefined q = true) ∧ (∀ q ∈ d.portTypeRefs, d.portTypeDefined q = true) ∧
    (∀ q ∈ d.bindingRefs, d.bindingDefined q = true) :=
  wsdl_refs_closed_general facts07 (by decide) (by decide) e (populated I) url d h (faults_in_tns I hwf)

/-- every `type=`, `base=` (embedded schemas) and `element=` (message parts) resolves to a definition in the
    document or to an XSD builtin, and is written with a prefix declared on the root element -/
theorem schema_refs_closed (e : Enum) (he : e.Valid) (I : IState) (url : String) (d : Doc)
    (h : build facts07 e I url = .ok d) (hwf : (populated I).wfCore = true) :
    (∀ q ∈ d.typeRefs, d.typeDefined q = true) ∧ (∀ q ∈ d.elemRefs, d.elemDefined q = true) :=
  schema_refs_closed_general facts07 (by decide) e he (populated I) url d h (faults_in_tns I hwf)

/-- every `soap:header/@part` (input and output, one or several headers) names a part of the message that
    `soap:header/@message` names -/
theorem header_parts_resolve (e : Enum) (I : IState) (url : String) (d : Doc)
    (h : build facts07 e I url = .ok d) (hwf : (populated I).wfCore = true) :
    ∀ bh ∈ d.headerRefs, d.headerPartOk bh = true :=
  header_parts_general facts07 (by decide) e (populated I) url d h (faults_in_tns I hwf)

/-- **no definition occurs twice**: one `wsdl:message` per name although services share header and fault classes
    (the set of emitted names lives as long as the document), one portType / binding / service per name, distinct
    port names in a service, one schema per namespace, one type / element per name in it -/
theorem definitions_unique (e : Enum) (he : e.Valid) (I : IState) (url : String) (d : Doc)
    (h : build facts07 e I url = .ok d) (hwf : (populated I).wfCore = true) (hops : (populated I).wfOps = true) :
    d.wellDefined = true :=
  definitions_unique_general facts07 (by decide) e he (populated I) url d h (faults_in_tns I hwf) hops

/-- **the document is closed**: every QName reference (type, base, element, message incl. wsdl:fault and
    soap:header, header part, binding, port) resolves, and to exactly one definition -/
theorem wsdl_closed (e : Enum) (he : e.Valid) (I : IState) (url : String) (d : Doc)
    (h : build facts07 e I url = .ok d) (hwf : (populated I).wfCore = true) (hops : (populated I).wfOps = true) :
    d.closed = true ∧ d.wellDefined = true := by
  obtain ⟨h1, h2, h3⟩ := message_porttype_binding_refs_closed e I url d h hwf
  obtain ⟨h4, h5⟩ := schema_refs_closed e he I url d h hwf
  have h6 := header_parts_resolve e I url d h hwf
  refine ⟨?_, definitions_unique e he I url d h hwf hops⟩
  simp only [Doc.closed, Bool.and_eq_true, List.all_eq_true]
  exact ⟨⟨⟨⟨⟨h4, h5⟩, h1⟩, h2⟩, h3⟩, h6⟩

/-- two namespaces are never written with the same prefix -/
theorem prefixes_injective (e : Enum) (I : IState) (url : String) (d : Doc)
    (h : build facts07 e I url = .ok d) (hwf : (populated I).wfCore = true) (ns₁ ns₂ : String) (pf : Pref)
    (h₁ : d.prefmap.lookup ns₁ = some pf) (h₂ : d.prefmap.lookup ns₂ = some pf) : ns₁ = ns₂ := by
  obtain ⟨schemas, tr, _, rfl⟩ := gen_ok facts07 (by decide) e (populated I) url d h
  have hw := wf_unpack (populated I) (faults_in_tns I hwf)
  exact prefix_injective _ (touchAll_inv _ (touchAll_inv _ hw.prefsInv _) _)
    ns₁ ns₂ pf h₁ h₂

/-- the `while pref in self.nsmap` loop of `get_namespace_prefix` finds an unused `s<k>` **for every pre-existing
    prefix table** (static prefixes, prefixes pinned by the application, earlier allocations) -/
theorem prefix_search_finds_free (taken : List Pref) (counter : Nat) :
    Pref.gen (firstFree taken (taken.length + 1) counter) ∉ taken :=
  firstFree_free taken counter

/-- starting from any consistent prefix table, after any sequence of `get_namespace_prefix` calls two namespaces
    never share a prefix and every written prefix is declared for its namespace -/
theorem prefixes_injective_any_initial (p : Prefs) (h : p.Inv) (calls : List String) (ns₁ ns₂ : String) (pf : Pref)
    (h₁ : (touchAll p calls).prefmap.lookup ns₁ = some pf) (h₂ : (touchAll p calls).prefmap.lookup ns₂ = some pf) :
    ns₁ = ns₂ ∧ (touchAll p calls).nsmap.lookup pf = some ns₁ :=
  ⟨prefix_injective _ (touchAll_inv p h calls) ns₁ ns₂ pf h₁ h₂, (touchAll_inv p h calls).back _ _ h₁⟩

/-! ### every exposed method is exactly one operation -/

/-- for every method of every service: exactly one `wsdl:operation` of that name in all portTypes, exactly one in
    all bindings, they sit in a portType and in the binding that is typed by that portType, and they agree on the
    input/output names, the messages and the declared faults -/
theorem ops_exactly_once (e : Enum) (I₀ : IState) (url : String) (d : Doc) (h : build facts07 e I₀ url = .ok d)
    (hw : (populated I₀).wfOps = true) (s : Svc) (hs : s ∈ (populated I₀).services) (m : Meth) (hm : m ∈ s.methods) :
    opCount m.opName d.portTypes = 1 ∧ bopCount m.opName d.bindings = 1 ∧
    ∃ pt ∈ d.portTypes, ∃ b ∈ d.bindings, b.type = ⟨d.tns, pt.name⟩ ∧
      ∃ o ∈ pt.ops, ∃ bo ∈ b.ops, o.name = m.opName ∧ bo.name = m.opName ∧ bo.soapAction = m.opName ∧
        o.inName = bo.inName ∧ o.outName = bo.outName ∧
        o.inMsg.loc = ((populated I₀).cls m.inMsg).elemName ∧ o.outMsg.loc = ((populated I₀).cls m.outMsg).elemName ∧
        o.faults.map (·.name) = m.faults.map (fun f => ((populated I₀).cls f).tn) ∧
        bo.faults = m.faults.map (fun f => ((populated I₀).cls f).tn) := by
  obtain ⟨h1, h2, pt, hpt, b, hb, _, hty, ho, hbo⟩ :=
    ops_exactly_once_general facts07 (by decide) (by decide) e (populated I₀) url d h hw s hs m hm
  refine ⟨h1, h2, pt, hpt, b, hb, hty, mkOp (populated I₀) m, ho, mkBOp facts07 (populated I₀) m, hbo, rfl, rfl, rfl, rfl, rfl, rfl, rfl, ?_, rfl⟩
  simp [mkOp, List.map_map, Function.comp]

/-! ### what goes wrong with other facts (the pinned tree) -/

/-- a concrete application (extracted from the real Interface of a generated spyne application) -/
def exI : IState :=
  { tns := "tns.main", name := "App",
    pins := [],
    staticNs := [("xs", "http://www.w3.org/2001/XMLSchema"), ("xsi", "http://www.w3.org/2001/XMLSchema-instance"), ("wsdlsoap11", "http://schemas.xmlsoap.org/wsdl/soap/"), ("wsdl", "http://schemas.xmlsoap.org/wsdl/")],
    classes := [
      ⟨"<class 'spyne.model.primitive.string.Unicode'>", "http://www.w3.org/2001/XMLSchema", "string", .builtin, none, [], none, .unset, none, [], false, false⟩,
      ⟨"<class 'c07app.H'>", "ns.h", "H", .complex, none, [⟨"tok", none, 0, false, false, 0, none, (some "0"), none, true⟩], none, .unset, none, [], false, false⟩,
      ⟨"<class 'c07app.Oops'>", "tns.main", "Oops", .complex, none, [], none, .unset, none, [], false, false⟩,
      ⟨"<class 'spyne.model.primitive.string.Unicode'>", "ns.a", "A_xType", .simple, (some 0), [], none, .unset, none, [], false, false⟩,
      ⟨"<class 'spyne.model.primitive.number.Integer'>", "http://www.w3.org/2001/XMLSchema", "integer", .builtin, none, [], none, .unset, none, [], false, false⟩,
      ⟨"<class 'spyne.model.complex.XmlAttribute'>", "tns.main", "XmlAttribute", .builtin, none, [], none, .unset, none, [], false, false⟩,
      ⟨"<class 'c07app.A'>", "ns.a", "A", .complex, none, [⟨"x", none, 3, false, false, 0, none, (some "0"), none, true⟩, ⟨"n", none, 5, true, false, 4, none, (some "0"), none, true⟩], none, .unset, none, [], false, false⟩,
      ⟨"<class 'c07app.A'>", "ns.a", "A", .complex, none, [⟨"x", none, 3, false, false, 0, none, (some "0"), none, true⟩, ⟨"n", none, 5, true, false, 4, none, (some "0"), none, true⟩], none, .unset, none, [], false, false⟩,
      ⟨"<class 'spyne.model.complex.Array'>", "ns.a", "AArray", .complex, none, [⟨"A", none, 7, false, false, 0, none, (some "0"), (some "unbounded"), true⟩], none, .unset, none, [], false, false⟩,
      ⟨"<class 'c07app.B'>", "ns.b", "B", .complex, (some 6), [⟨"l", none, 8, false, false, 0, none, (some "0"), none, true⟩], none, .unset, none, [], false, false⟩,
      ⟨"<class 'spyne.model.complex.f'>", "tns.main", "f", .complex, none, [⟨"b", none, 9, false, false, 0, none, (some "0"), none, true⟩], none, .unset, none, [], false, false⟩,
      ⟨"<class 'spyne.model.complex.fResponse'>", "tns.main", "fResponse", .complex, none, [⟨"fResult", none, 6, false, false, 0, none, (some "0"), none, true⟩], none, .unset, none, [], false, false⟩,
      ⟨"<class 'spyne.model.primitive.string.Unicode'>", "http://www.w3.org/2001/XMLSchema", "string", .builtin, none, [], (some "g"), .dflt, none, [], false, false⟩,
      ⟨"<class 'spyne.model.primitive.string.Unicode'>", "http://www.w3.org/2001/XMLSchema", "string", .builtin, none, [], (some "gResponse"), .dflt, none, [], false, false⟩],
    deps := [(1, [0]), (0, []), (2, []), (10, [9]), (9, [8, 6]), (6, [5, 3]), (3, [0]), (5, []), (4, []), (8, [7]), (11, [6])],
    imports := [("tns.main", ["ns.a", "ns.b", "ns.h"]), ("ns.h", []), ("ns.b", ["ns.a"]), ("ns.a", ["tns.main"])],
    services := [⟨"S", ["P1", "P2"], [⟨"f", "f", 10, 11, (some [1]), none, [2], (some "P1"), none⟩, ⟨"g", "g", 12, 13, (some [1]), none, [], (some "P2"), none⟩]⟩],
    transport := "http://schemas.xmlsoap.org/soap/http", inSoap12 := false, outSoap12 := false }

/-- with `<xs:import>` written in set order two processes disagree (D19) -/
theorem hashseed_witness :
    gen { facts07 with importsIter := .hashOrder } Enum.id exI "u" ≠
    gen { facts07 with importsIter := .hashOrder } Enum.rev exI "u" := by decide +kernel

/-- two complex types in two namespaces, each with a restricted string member (same `repr`, same tier) -/
def exT : IState :=
  { tns := "tns.main", name := "App",
    pins := [],
    staticNs := [("xs", "http://www.w3.org/2001/XMLSchema"), ("wsdl", "http://schemas.xmlsoap.org/wsdl/")],
    classes := [
      ⟨"<class 'spyne.model.primitive.string.Unicode'>", "http://www.w3.org/2001/XMLSchema", "string", .builtin, none, [], none, .unset, none, [], false, false⟩,
      ⟨"<class 'spyne.model.primitive.string.Unicode'>", "ns.p", "P_xType", .simple, (some 0), [], none, .unset, none, [], false, false⟩,
      ⟨"<class 'c07app.P'>", "ns.p", "P", .complex, none, [⟨"x", none, 1, false, false, 0, none, (some "0"), none, true⟩], none, .unset, none, [], false, false⟩,
      ⟨"<class 'spyne.model.primitive.string.Unicode'>", "ns.q", "Q_xType", .simple, (some 0), [], none, .unset, none, [], false, false⟩,
      ⟨"<class 'c07app.Q'>", "ns.q", "Q", .complex, none, [⟨"x", none, 3, false, false, 0, none, (some "0"), none, true⟩], none, .unset, none, [], false, false⟩,
      ⟨"<class 'spyne.model.complex.f'>", "tns.main", "f", .complex, none, [⟨"p", none, 2, false, false, 0, none, (some "0"), none, true⟩, ⟨"q", none, 4, false, false, 0, none, (some "0"), none, true⟩], none, .unset, none, [], false, false⟩,
      ⟨"<class 'spyne.model.complex.fResponse'>", "tns.main", "fResponse", .complex, none, [⟨"fResult", none, 0, false, false, 0, none, (some "0"), none, true⟩], none, .unset, none, [], false, false⟩],
    deps := [(5, [2, 4]), (2, [1]), (1, [0]), (0, []), (4, [3]), (3, [0]), (6, [0])],
    imports := [("tns.main", ["ns.p", "ns.q"]), ("ns.p", []), ("ns.q", [])],
    services := [⟨"S", [], [⟨"f", "f", 5, 6, none, none, [], none, none⟩]⟩],
    transport := "http://schemas.xmlsoap.org/soap/http", inSoap12 := false, outSoap12 := false }

/-- with toposort ties broken by a set of class objects two processes disagree on prefixes and schema order -/
theorem layout_witness :
    gen { facts07 with tierTies := .hashOrder } Enum.id exT "u" ≠
    gen { facts07 with tierTies := .hashOrder } Enum.rev exT "u" := by decide +kernel

/-- with the header's own namespace prefix in `soap:header/@message` the document is not closed -/
theorem header_ref_witness :
    (match gen { facts07 with headerMsgNs := .headerNs } Enum.id exI "u" with
      | .ok d => d.closed | _ => true) = false := by decide +kernel

/-- with every operation in the last declared portType a method has no matching binding operation -/
theorem porttype_witness :
    (match gen { facts07 with opPortType := .lastDeclared } Enum.id exI "u" with
      | .ok d => d.opsExactlyOnce exI | _ => true) = false := by decide +kernel

/-- `exI` with its fault declared in a library namespace -/
def exF : IState :=
  { exI with classes := exI.classes.set 2 { exI.cls 2 with ns := "urn:c07:faultlib" },
             imports := exI.imports ++ [("urn:c07:faultlib", [])] }

/-- if `add_method` kept the declared namespace of a fault, `wsdl:fault/@message` would point outside the tns -/
theorem fault_namespace_witness :
    (match build { facts07 with faultNs := .keptDeclared } Enum.id exF "u" with
      | .ok d => d.closed | _ => true) = false := by decide +kernel

/-- `exI` split into two services (one port type each) that share the header class `H` -/
def exM : IState :=
  { exI with services := [⟨"S", ["P1"], [⟨"f", "f", 10, 11, (some [1]), none, [2], (some "P1"), none⟩]⟩,
                          ⟨"S2", ["P2"], [⟨"g", "g", 12, 13, (some [1]), none, [], (some "P2"), none⟩]⟩] }

/-- with a fresh set of emitted message names per service, a shared header yields two `wsdl:message name="H"` -/
theorem message_dedup_witness :
    (match build { facts07 with messageDedup := .perService } Enum.id exM "u" with
      | .ok d => d.wellDefined | _ => true) = false := by decide +kernel

/-- `exI` whose class `A` lists a plain mixin before `ComplexModel`, with `s0` and `s1` pinned by the application -/
def exX : IState :=
  { exI with classes := exI.classes.map (fun c => if c.tn = "A" then { c with mixinFirst := true } else c),
             pins := [(.gen 0, "ns.b"), (.gen 1, "ns.h")] }

/-- `exI` whose class `A` lists a plain mixin after `ComplexModel` -/
def exY : IState :=
  { exI with classes := exI.classes.map (fun c => if c.tn = "A" then { c with mixinLast := true } else c) }

/-- with the bases tried from the last one (`reversed(cls.__bases__)`), `class A(ComplexModel, Mixin)` gets no
    complexType and `type="..:A"` dangles -/
theorem handler_lookup_witness_last :
    (match build { facts07 with handlerLookup := .lastBase } Enum.id exY "u" with
      | .ok d => d.closed | _ => true) = false := by decide +kernel

/-- if the handler tables tried the first base first, `class A(Mixin, ComplexModel)` would get no complexType and
    `type="..:A"` would dangle -/
theorem handler_lookup_witness :
    (match build { facts07 with handlerLookup := .firstBase } Enum.id exX "u" with
      | .ok d => d.closed | _ => true) = false := by decide +kernel

/-- a class with text content (`XmlData`) and a required attribute of an enumeration type; a documented method -/
def exD : IState :=
  { tns := "tns.main", name := "App",
    pins := [],
    staticNs := [("xs", "http://www.w3.org/2001/XMLSchema"), ("wsdl", "http://schemas.xmlsoap.org/wsdl/")],
    classes := [
      ⟨"<class 'spyne.model.primitive.number.Decimal'>", "http://www.w3.org/2001/XMLSchema", "decimal", .builtin, none, [], none, .unset, none, [], false, false⟩,
      ⟨"<class 'spyne.model.complex.XmlData'>", "http://www.w3.org/2001/XMLSchema", "decimal", .builtin, none, [], none, .unset, none, [], false, false⟩,
      ⟨"<class 'spyne.model.enum.Enum.<locals>.EnumType'>", "tns.main", "Unit", .enum, none, [], none, .unset, none, ["kg", "lb"], false, false⟩,
      ⟨"<class 'spyne.model.complex.XmlAttribute'>", "tns.main", "XmlAttribute", .builtin, none, [], none, .unset, none, [], false, false⟩,
      ⟨"<class 'c07app.Weight'>", "ns.a", "Weight", .complex, none, [⟨"val", none, 1, false, true, 0, none, (some "0"), none, true⟩, ⟨"unit", none, 3, true, false, 2, (some "required"), (some "0"), none, true⟩], none, .unset, none, [], false, false⟩,
      ⟨"<class 'spyne.model.complex.weigh'>", "tns.main", "weigh", .complex, none, [⟨"w", none, 4, false, false, 0, none, (some "0"), none, true⟩], none, .unset, none, [], false, false⟩,
      ⟨"<class 'spyne.model.complex.weighResponse'>", "tns.main", "weighResponse", .complex, none, [⟨"weighResult", none, 4, false, false, 0, none, (some "0"), none, true⟩], none, .unset, none, [], false, false⟩],
    deps := [(5, [4]), (4, [1, 3]), (1, []), (3, []), (2, []), (6, [4])],
    imports := [("tns.main", ["ns.a"]), ("ns.a", ["tns.main"])],
    services := [⟨"S", [], [⟨"weigh", "weigh", 5, 6, none, none, [], none, (some "Weighs.")⟩]⟩],
    transport := "http://schemas.xmlsoap.org/soap/http", inSoap12 := false, outSoap12 := false }

/-- without the `document.add(xtba_type.type)` / base reference of an XmlData member being closed over, the
    `xs:simpleContent` base of `Weight` and the attribute's enumeration type both have to resolve: they do -/
theorem xmldata_example_closed :
    (match build facts07 Enum.id exD "u" with
      | .ok d => d.closed && d.wellDefined && (d.typeRefs.any (fun q => q == ⟨nsXsd, "decimal"⟩)) &&
                 (d.portTypes.flatMap (·.ops)).all (fun o => o.doc == some "Weighs.")
      | _ => false) = true := by decide +kernel

/-! ### non-vacuity: the hypotheses hold for a concrete application (2 port types, header in a foreign namespace,
    inheritance across namespaces, array, attribute, restricted simple type, fault, bare method) -/

example : (populated exI).wfCore = true := by decide +kernel
example : (populated exI).wfOps = true := by decide +kernel
example : (match build facts07 Enum.id exI "http://h/app?wsdl" with | .ok d => d.closed && d.opsExactlyOnce exI && d.importsCover | _ => false) = true := by
  decide +kernel
example : (populated exF).wfCore = true ∧ (exF.cls 2).ns = "urn:c07:faultlib" ∧ ((populated exF).cls 2).ns = "tns.main" := by
  decide +kernel
example : (match build facts07 Enum.id exF "u" with | .ok d => d.closed && !d.headerRefs.isEmpty | _ => false) = true := by
  decide +kernel
example : (populated exT).wfCore = true ∧ exT.wfOps = true := by decide +kernel
example : (populated exM).wfCore = true ∧ (populated exM).wfOps = true := by decide +kernel
example : (match build facts07 Enum.id exM "u" with | .ok d => d.closed && d.wellDefined && d.messages.length == 6 | _ => false) = true := by
  decide +kernel
example : (populated exX).wfCore = true ∧ (populated exX).wfOps = true := by decide +kernel
example : (match build facts07 Enum.id exX "u" with
    | .ok d => d.closed && d.wellDefined && d.nsdecl.lookup (.gen 2) == some "ns.a" && d.nsdecl.lookup (.gen 0) == some "ns.b"
    | _ => false) = true := by decide +kernel
example : (populated exD).wfCore = true ∧ (populated exD).wfOps = true := by decide +kernel
example : Enum.rev.Valid := Enum.rev_valid
example : exI.deps ≠ [] := by decide

end SpyneModel.Props.C07
