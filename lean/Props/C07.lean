import SpyneModel.Wsdl
import SpyneModel.Generated.Facts07
namespace SpyneModel.Props.C07
open SpyneModel SpyneModel.Wsdl SpyneModel.Generated

theorem placeholder : facts07.staticPrefixesClean = true := by decide

end SpyneModel.Props.C07
