/-
  C01, continued — member defaults and the multi-reference spelling (SpyneModel/XmlOptions.lean; measured facts
  `factsOpt`, T1 witnesses in harness/xmlblock.py). The other dimensions added with them are below the tree the
  model works on (response character encoding, XML declaration, pretty printing, parser settings, the fragments
  and charset a transport hands over) or outside the shared vocabulary (Iterable / generator results, results
  given as dict / list / tuple, declaration styles, sub_name / sub_ns, SelfReference): T3 only.
-/
import SpyneModel.XmlOptions
import SpyneModel.Generated.Facts01
namespace SpyneModel.Props.C01options
open SpyneModel SpyneModel.Xml SpyneModel.Generated

/-- a value that is sent is never replaced by a default -/
theorem sent_value_beats_default (O : FactsOpt) (r : Bool) (d : Option Val) (v : Val) (hv : v ≠ .none) :
    memberWithDefault O r d (some v) = v := by
  cases v <;> simp_all [memberWithDefault]

/-- a member the document leaves out, or sends as `xsi:nil`, arrives as its declared default … -/
theorem absent_or_nil_takes_the_default (d : Val) :
    memberWithDefault factsOpt true (some d) none = d ∧ memberWithDefault factsOpt true (some d) (some .none) = d := by
  have h1 : factsOpt.absentTakesDefault = true := by decide
  have h2 : factsOpt.nilTakesDefault = true := by decide
  simp [memberWithDefault, h1, h2]

/-- … unless the protocol is built with replace_null_with_default=False: then nil is None -/
theorem nil_stays_none_without_the_option (O : FactsOpt) (d : Option Val) :
    memberWithDefault O false d (some .none) = .none := by
  simp [memberWithDefault]

/-- without a declared default nothing changes -/
theorem no_default_no_change (O : FactsOpt) (r : Bool) (read : Option Val) :
    memberWithDefault O r none read = read.getD .none := by
  cases read with
  | none => simp [memberWithDefault]
  | some v => cases v <;> simp [memberWithDefault]

/-- multi-reference spelling: an element that only carries `href="#i"` stands for the attributes, text and
    children of the element with `id="i"` -/
theorem href_stands_for_the_referenced_content (ids : List (Text × Node)) (ns n i : Text) (ns' n' : Text)
    (a : List (Text × Text)) (t : Option Text) (c : List Node) (h : ids.lookup i = some (.elem ns' n' a t c)) :
    deref factsOpt ids (.elem ns n [(hrefKey, '#' :: i)] none []) = .elem ns n ((hrefKey, '#' :: i) :: a) t c := by
  have hR : factsOpt.hrefsResolved = true := by decide
  simp [deref, hR, List.lookup, h]

/-- an element without href is left alone -/
theorem no_href_no_change (ids : List (Text × Node)) (ns n : Text) (attrs : List (Text × Text)) (t : Option Text)
    (c : List Node) (h : attrs.lookup hrefKey = none) :
    deref factsOpt ids (.elem ns n attrs t c) = .elem ns n attrs t c := by
  simp [deref, h]

end SpyneModel.Props.C01options
