/-
  C06 — the published XML Schema is truthful about the wire. Property theorems only.
-/
import SpyneModel.SchemaSpec
import Props.Facts08Good
import SpyneModel.Generated.Facts06
namespace SpyneModel.Props.C06
open SpyneModel SpyneModel.Xml SpyneModel.Schema SpyneModel.Generated

/-- the measured type names are the XSD built-ins the model maps the primitives to -/
theorem facts06_good : facts06.Good where
  ints := fun k => by cases k <;> decide
  bool := by decide
  unicode := by decide
  date := by decide
  time := by decide
  dateTime := by decide
  duration := by decide
  bytes := fun e => by cases e <;> decide
  qualified := by decide

end SpyneModel.Props.C06
