/-
  C06 — the published XML Schema is truthful about the wire. Property theorems only.
  Every theorem is about the model instantiated with the facts regenerated from /repo
  (`Generated.facts06`, `Generated.facts08`); side conditions by `decide`.
-/
import Proofs.SchemaDocs
import Proofs.SchemaAttr
import Proofs.SchemaMethods
import SpyneModel.Generated.Facts01
import Props.Facts08Good
import SpyneModel.Generated.Facts06
namespace SpyneModel.Props.C06
open SpyneModel SpyneModel.Xml SpyneModel.Schema SpyneModel.Generated

/-- an application as the generator sees it, with the measured generator and leaf-codec facts;
    `vals` = the `values=` facet of the non-string primitives -/
def app (I : Iface) (enumKeys : List (List Text × Key)) (vals : List (PrimTy × List Val) := []) : App :=
  { facts := facts06, leaf := facts08, iface := I, enumKeys := enumKeys, values := vals }

/-- T1: the type names measured on /repo are the XSD built-ins the model maps the primitives to
    (so that, e.g., the value space `xs:byte` checked by the reference validator is Integer8's) -/
theorem facts06_good : facts06.Good where
  ints := fun k => by cases k <;> decide
  bool := by decide
  unicode := by decide
  date := by decide
  time := by decide
  dateTime := by decide
  duration := by decide
  bytes := fun e => by cases e <;> decide
  qualified := by decide

/-- **emitted_valid.** For every well-formed application whose inheritance chains stay within one
    namespace (`sameNsChains`: the encoder model, build-XML's, writes every member of an instance in
    the namespace of the instance's class; chains that cross namespaces are covered by
    `generated_schema_denotes` on the schema side and by T2/T3 on the real encoder), every registered
    class (message classes included), every protocol configuration (`polymorphic` on or off) and every instance that
    satisfies the declared constraints — `conformsOne`, and at every leaf `leafCond`: the value has an
    XSD literal and is one of the declared `values` if the member declares any — the document the XML
    encoder writes is valid against the schema generated for the application. -/
theorem emitted_valid (I : Iface) (ek : List (List Text × Key)) (vals : List (PrimTy × List Val))
    (hwf : (app I ek vals).wf = true) (hsn : (app I ek vals).sameNsChains = true) (cfg : Cfg)
    (C : ClassDef) (hC : C ∈ I.classes) (vs : List (Text × Val))
    (hc : conformsOne (ClassDef.toTy C) (.obj C.name vs) = true)
    (hr : leavesOne (leafCond (app I ek vals)) (ClassDef.toTy C) (.obj C.name vs) = true) :
    ∃ x, encode facts08 cfg I C.ns C.name (ClassDef.toTy C) (.obj C.name vs) = [x] ∧
      (gen (app I ek vals)).valid x = true :=
  emitted_valid_gen (app I ek vals) facts08_good hwf hsn cfg C hC vs hc hr

/-- **enumeration literals.** Every `<xs:enumeration value=…>` the generator writes for a declared
    value is the literal the XML protocol puts on the wire for that value (`leafToText`), lies in the
    lexical and value space of the base type, and the restriction as a whole is legal XSD. -/
theorem enumeration_literals_legal (I : Iface) (ek : List (List Text × Key)) (vals : List (PrimTy × List Val))
    (hv : (app I ek vals).valuesWf = true) (p : PrimTy) (hw : Schema.primWf p = true) :
    (app I ek vals).enumLits p = ((app I ek vals).extraVals p).filterMap (leafToText facts08 p) ∧
    simpleDefOk { base := builtinOf p, facets := primFacetsA (app I ek vals) p } = true :=
  ⟨rfl, prim_def_legalA (app I ek vals) facts08_good hv p hw⟩

/-- **schema = denotation.** On a well-formed application — any number of namespaces, inheritance
    chains within or across namespaces — the reference validator run on the generated set of
    documents decides exactly validity for the type the class denotes (`denoteG`: every member is an
    element in the namespace of the class that DECLARES it, an inherited member in its ancestor's):
    every reference of the generated documents resolves to the definition generated for it, base
    chains are followed to the root through `<xs:extension base=…>` into other documents,
    restrictions carry the declared facets. -/
theorem generated_schema_denotes (I : Iface) (ek : List (List Text × Key)) (vals : List (PrimTy × List Val))
    (hwf : (app I ek vals).wf = true)
    (C : ClassDef) (hC : C ∈ I.classes) (x : Node) (hkey : nodeKey x = (C.ns, C.name)) :
    (gen (app I ek vals)).valid x = validS (denoteG (app I ek vals) C.ns (ClassDef.toTy C)) false x :=
  valid_gen (app I ek vals) hwf C hC x hkey

/-- on same-namespace chains the denotation is the one the encoder theorem is stated against: all
    members of a class in the class's namespace -/
theorem generated_schema_denotes_same_ns (I : Iface) (ek : List (List Text × Key)) (vals : List (PrimTy × List Val))
    (hwf : (app I ek vals).wf = true) (hsn : (app I ek vals).sameNsChains = true)
    (C : ClassDef) (hC : C ∈ I.classes) (x : Node) (hkey : nodeKey x = (C.ns, C.name)) :
    (gen (app I ek vals)).valid x =
      validS (denote (primFacetsA (app I ek vals)) I.tns C.ns (ClassDef.toTy C)) false x :=
  valid_gen_same (app I ek vals) hwf hsn C hC x hkey

/-- every conformant leaf value is written as a literal of the simple type the schema declares for
    it: lexical space of the XSD built-in and every generated facet -/
theorem leaf_literal_valid (I : Iface) (ek : List (List Text × Key)) (vals : List (PrimTy × List Val))
    (p : PrimTy) (v : Val) (hv : p.valueOk v = true) (hr : leafCond (app I ek vals) p v = true) :
    ∃ s, leafToText facts08 p v = some s ∧ simpleOk (builtinOf p) (primFacetsA (app I ek vals) p) s = true :=
  leaf_simpleOkA (app I ek vals) facts08_good p v hv hr

/-- **default literals.** The `default="…"` written into an element or attribute declaration for a
    conformant default value is the wire literal of that value and a valid literal of the declared
    simple type — what XSD demands of a `default` (otherwise the schema does not compile), and what
    makes the document valid in which the protocol writes the default in place of None. -/
theorem default_literal_valid (I : Iface) (ek : List (List Text × Key)) (vals : List (PrimTy × List Val))
    (p : PrimTy) (v : Val) (hv : p.valueOk v = true) (hr : leafCond (app I ek vals) p v = true) :
    ∃ s, defaultLiteral facts08 p v = some s ∧ leafToText facts08 p v = some s ∧
      simpleOk (builtinOf p) (primFacetsA (app I ek vals) p) s = true := by
  obtain ⟨s, h1, h2⟩ := leaf_simpleOkA (app I ek vals) facts08_good p v hv hr
  exact ⟨s, h1, h1, h2⟩

/-- **lxml_soft_agree.** On a document whose root is the element of a registered class and that is in
    the common form — declared members only, in declared order and namespaces, no attribute but a
    true `xsi:nil` on an empty element, and at every leaf a literal on which the XSD lexical space and
    spyne's parser agree (`lexAgree`) — schema validation and soft validation reach the same verdict.
    What is left to both is exactly what both implement: nillable, minOccurs / maxOccurs, the
    value-space bounds of the integer kinds, ge/gt/le/lt, min_len/max_len, pattern, values,
    enumeration membership. The one-sided constraints excluded by the common form are listed in
    `OnlySchema` / `OnlySoft`. Holds for the switches of xml.py as measured (`factsXml`), good or not.
    (Stated for applications without `values` on non-string primitives: the soft decoder model is
    build-XML's and has no such facet; T3 compares the two real validators on enumerated members.) -/
theorem lxml_soft_agree (I : Iface) (ek : List (List Text × Key)) (hwf : (app I ek).wf = true)
    (hsn : (app I ek).sameNsChains = true) (C : ClassDef) (hC : C ∈ I.classes) (ns name : Text) (text : Option Text) (children : List Node)
    (hkey : (ns, name) = (C.ns, C.name))
    (hcf : commonForm facts08 factsXml I.tns C.ns (ClassDef.toTy C) (.elem ns name [] text children) = true) :
    (gen (app I ek)).valid (.elem ns name [] text children) =
      softAccepts facts08 factsXml I (ClassDef.toTy C) (.elem ns name [] text children) :=
  lxml_soft_agree_gen facts08 factsXml (app I ek) hwf hsn rfl C hC ns name text children hkey hcf

/-! ### the schema compiles -/

/-- **gen_compiles.** For every well-formed application — any number of classes and namespaces,
    inheritance chains, nested objects, wrapped arrays (of classes, primitives, enums, customised
    primitives, arrays), restrictions on every primitive — the generated schema passes every check
    libxml2 applies to this subset: names unique per symbol space, simple and complex names disjoint,
    every restriction step legal, every complexType legal (base visible + complex, chain finite,
    member types resolve to visible components, occurrence bounds ordered, deterministic content
    model), every global element resolves, every `<xs:import>` names a namespace that has a document
    of the set. -/
theorem gen_compiles (I : Iface) (ek : List (List Text × Key)) (vals : List (PrimTy × List Val))
    (hwf : (app I ek vals).wf = true) : (gen (app I ek vals)).compiles = true :=
  Schema.gen_compiles (app I ek vals) facts08_good hwf

/-- **the set of documents.** One document per namespace in use; the `<xs:import>` elements of a
    document are exactly its namespace's imports, in `sorted` order (fixes/C07-01); every import
    names a namespace that has a document. -/
theorem documents_and_imports (I : Iface) (ek : List (List Text × Key)) (vals : List (PrimTy × List Val))
    (hwf : (app I ek vals).wf = true) (ns : Text) :
    List.Pairwise (fun a b => textLe a b = true) ((gen (app I ek vals)).doc ns).imports ∧
    (∀ n, n ∈ ((gen (app I ek vals)).doc ns).imports ↔ (ns, n) ∈ (gen (app I ek vals)).imports) ∧
    (∀ n, n ∈ ((gen (app I ek vals)).doc ns).imports → n ∈ (gen (app I ek vals)).docNs) := by
  refine ⟨(doc_imports _ ns).1, (doc_imports _ ns).2, ?_⟩
  intro n hn
  have h := imports_have_docs (app I ek vals) hwf
  unfold Schema.importsHaveDocs at h
  exact List.contains_iff_mem.mp ((List.all_eq_true.mp h) (ns, n) (((doc_imports _ ns).2 n).mp hn))

/-- **no dangling QName.** With the interface's prefixes (one per namespace in use, no prefix
    shared), every `type=` / `base=` of the generated documents reads back — through the `xmlns`
    declarations every document carries — as the name meant; that name is defined in the set; and it
    lives in the referring document's namespace or in one the document imports, which has a document. -/
theorem no_dangling_qname (I : Iface) (ek : List (List Text × Key)) (vals : List (PrimTy × List Val))
    (hwf : (app I ek vals).wf = true) (pm : PrefMap) (hp : prefixesOk pm (gen (app I ek vals)) = true) :
    ∀ r ∈ (gen (app I ek vals)).namedRefs,
      (∃ q, qnameOf pm r.2 = some q ∧ resolveQ pm q = some r.2) ∧
      ((gen (app I ek vals)).hasSimple r.2 || (gen (app I ek vals)).hasComplex r.2) = true ∧
      (r.2.1 = r.1 ∨ r.2.1 ∈ ((gen (app I ek vals)).doc r.1).imports) ∧ r.2.1 ∈ (gen (app I ek vals)).docNs :=
  Schema.no_dangling_qname _ (Schema.gen_compiles (app I ek vals) facts08_good hwf) pm hp

/-- **method elements.** Declaring the request / response elements of the methods in the document of
    the application's namespace — for a `_body_style='bare'` method an element typed by the argument
    class itself, in whatever namespace that class lives, together with the import of that namespace
    (`Interface.add_method`) — keeps the set compiling: element names unique, every element type
    visible from the application's document and defined, every import with a document. Without that
    import the element conjunct of `compiles` fails (libxml2: "references ... are not allowed, since
    not indicated by an import statement"). -/
theorem method_elements_compile (I : Iface) (ek : List (List Text × Key)) (vals : List (PrimTy × List Val))
    (hwf : (app I ek vals).wf = true) (M : Methods)
    (hm : M.elems.all (fun m => (gen (app I ek vals)).hasComplex m.2 || (gen (app I ek vals)).hasSimple m.2) = true) :
    ((gen (app I ek vals)).withMethods M).compiles = true :=
  gen_withMethods_compiles (app I ek vals) facts08_good hwf M hm

/-- **root of a bare response = declared element of the out message.** With the measured serializer
    (`facts06.bareRootIsSubName`, T1 witness `f() -> Integer` under XmlDocument), the root element of
    the response of a method that is not wrapped — whether its out message is a class or an
    uncustomised primitive — is a global element the published set declares. -/
theorem bare_response_root_declared (hF : facts06.bareRootIsSubName = true) (S : Schema) (M : Methods)
    (subName typeName : Text)
    (hm : (∃ k, (subName, k) ∈ M.elems) ∨ (M.prims.lookup subName).isSome = true) :
    S.declaresRoot M (S.tns, bareRootName facts06 subName typeName) = true :=
  bare_root_declared facts06 hF S M subName typeName hm

/-! ### member kinds: XmlAttribute, XmlData, xml_choice_group -/

/-- an application whose classes have attribute / data members (build-XML's `IfaceA`) and choice
    groups, with the measured generator facts -/
def appA (I : IfaceA) (enumKeys : List (List Text × Key)) (vals : List (PrimTy × List Val))
    (modNs : List (Text × Text)) (choice : List ((Key × Text) × Text)) : AppA :=
  { facts := facts06, leaf := facts08, iface := I, enumKeys := enumKeys, values := vals, modNs := modNs, choice := choice }

/-- **gen_compiles with member kinds.** For every well-formed application with `XmlAttribute`
    members (own and inherited through `<xs:extension>`, plain or customised types, `use`), an
    `XmlData` member (`<xs:simpleContent>`) and `xml_choice_group`s, the extended set of documents
    compiles: the element part as in `gen_compiles`; the simple types of customised attribute /
    data members legal, uniquely named and not clashing with a complexType; every `type=` of an
    attribute and every simpleContent `base=` a visible, defined simple type; own and inherited
    attribute names distinct; a simple-content class without element content, base or extension;
    the namespaces imported for such members have documents. Needs the generator to define the type
    of a customised XmlData member (`dataTypeDefined`, measured by T1; fixes/C06-04). -/
theorem gen_compiles_member_kinds (I : IfaceA) (ek : List (List Text × Key)) (vals : List (PrimTy × List Val))
    (mn : List (Text × Text)) (ch : List ((Key × Text) × Text))
    (hdt : facts06.dataTypeDefined = true) (hwf : (appA I ek vals mn ch).wf = true) :
    (genA (appA I ek vals mn ch)).compiles = true :=
  genA_compiles (appA I ek vals mn ch) facts08_good hdt hwf

/-- **the member-kind layer is conservative.** For an application without attribute, data or choice
    members the extended reference validator on the extended documents is `(gen A).valid`: the
    theorems above (`emitted_valid`, `generated_schema_denotes`, `lxml_soft_agree`) are statements
    about the extended layer too. -/
theorem member_kinds_conservative (I : Iface) (ek : List (List Text × Key)) (vals : List (PrimTy × List Val)) (x : Node) :
    (genA (AppA.ofApp (app I ek vals))).valid x = (gen (app I ek vals)).valid x :=
  genA_ofApp_valid (app I ek vals) x

/-- every class (message classes included) of a well-formed application gets a complexType
    definition that passes libxml2's checks, and a global element that resolves -/
theorem class_definitions_compile (I : Iface) (ek : List (List Text × Key)) (vals : List (PrimTy × List Val))
    (hwf : (app I ek vals).wf = true) (D : ClassDef) (hD : D ∈ (app I ek vals).allClasses) :
    complexDefOk (gen (app I ek vals)) ((D.ns, D.name), (classComplex (app I ek vals) D).2) = true ∧
    (gen (app I ek vals)).hasComplex (D.ns, D.name) = true :=
  class_definition_ok (app I ek vals) hwf D hD

/-- the restriction written for a well-formed customised integer is legal XSD: every bound is a
    value of the base type and the bounds do not contradict each other -/
theorem integer_restriction_legal (k : IntKind) (r : Range) (hw : Schema.primWf (.integer k r) = true) :
    simpleDefOk { base := .integer k, facets := primFacets facts06 (.integer k r) } = true := by
  have e : primFacets facts06 (.integer k r) = intFacets r := by
    show intFacets (writtenRange facts06 k r) = intFacets r
    rw [writtenRange_wf facts06 k r hw]
  rw [e]
  exact hw

theorem string_restriction_legal (a : Nat) (b : Option Nat) (pat : Option Pattern) (vals : List Text)
    (hw : Schema.primWf (.unicode a b pat vals) = true) :
    simpleDefOk { base := .string, facets := primFacets facts06 (.unicode a b pat vals) } = true :=
  string_facets_legal facts06 a b pat vals hw

/-- for ANY generator with the two repairs of fixes/C06-01 (bounds outside the base type dropped,
    double bounds merged): every integer declaration that some value satisfies — including the ones
    the model class only warns about, `UnsignedInteger8(gt=-1)`, `Integer(gt=1, ge=3)` — yields a
    restriction libxml2 accepts. (On a tree without the repair the switches measure `false`, the
    witnesses are replayed by T1 and reported.) -/
theorem repaired_generator_restrictions_legal (F6 : Facts06) (hc : F6.clampFacets = true) (hm : F6.mergeBounds = true)
    (k : IntKind) (r : Range) (i : Int) (hi : r.holds i = true) :
    simpleDefOk { base := .integer k, facets := primFacets F6 (.integer k r) } = true :=
  fixed_facets_legal F6 hc hm k r i hi

/-- the repair does not change what a type accepts: whatever the two switches measure, the written
    facets allow exactly the declared values of the base type (for declarations the model class
    does not refuse with ValueError) -/
theorem written_facets_same_value_space (k : IntKind) (r : Range) (i : Int)
    (hs : rangeSane k r = true) (hi : inKind k i = true) :
    (writtenRange facts06 k r).holds i = r.holds i :=
  writtenRange_same_values facts06 k r i hs hi

example : Schema.primWf (.integer .u8 { gt := some 3, le := some 200 }) = true := by decide
example : rangeSane .u8 { gt := some (-1) } = true ∧ Schema.primWf (.integer .u8 { gt := some (-1) }) = false := by decide
example : ({ gt := some 1, ge := some 3, lt := some 10, le := some 12 } : Range).holds 5 = true := by decide

/-! ### non-vacuity: a universe with inheritance, an array and restricted primitives -/

open SpyneModel.Schema.Example in
example : (app iface []).wf = true := by decide +kernel

open SpyneModel.Schema.Example in
example : (gen (app iface [])).compiles = true := by decide +kernel

open SpyneModel.Schema.Example in
example : (app iface []).sameNsChains = true := by decide +kernel

open SpyneModel.Schema.Example in
example : cMsg ∈ iface.classes := by simp [iface]

/-- a chain that crosses namespaces (`urn:b`:Base ⊂ `urn:a`:Derived): well-formed, not same-namespace,
    the set compiles, `urn:a` imports `urn:b`, the prefixes are fine, the inherited member is accepted
    in its declaring class's namespace only -/
example : (app ExampleX.iface []).wf = true ∧ (app ExampleX.iface []).sameNsChains = false ∧
    (gen (app ExampleX.iface [])).compiles = true ∧
    ((gen (app ExampleX.iface [])).doc (Example.T "urn:a")).imports = [Example.T "urn:b", Example.T "urn:t"] ∧
    prefixesOk ExampleX.pm (gen (app ExampleX.iface [])) = true ∧
    (gen (app ExampleX.iface [])).valid ExampleX.goodDoc = true ∧
    (gen (app ExampleX.iface [])).valid ExampleX.wrongNsDoc = false := by decide +kernel

open SpyneModel.Schema.Example in
example : conformsOne (ClassDef.toTy cMsg) (.obj cMsg.name value) = true := value_conforms

open SpyneModel.Schema.Example in
example : leavesOne (leafCond (app iface [] exVals)) (ClassDef.toTy cMsg) (.obj cMsg.name value) = true := by
  simp [leavesOne, leavesFields, leaves, leavesItems, ClassDef.toTy, cMsg, msgFields, value, derFields, baseFields,
    Ty.occ, Occ.repeated, itemOcc, T, leafCond, tzOk, App.extraVals, app, exVals, leafEq, List.lookup]

open SpyneModel.Schema.Example in
/-- with `values = [5, 7]` declared on the Integer8(ge=3) member: wf, compiles, member accepted, non-member rejected -/
example : (app iface [] exVals).wf = true ∧ (gen (app iface [] exVals)).compiles = true ∧
    (gen (app iface [] exVals)).valid goodDoc = false ∧
    (encode facts08 {} iface cMsg.ns cMsg.name (ClassDef.toTy cMsg) (.obj cMsg.name value)).map
      (fun x => (gen (app iface [] exVals)).valid x) = [true] := by decide +kernel

open SpyneModel.Schema.Example in
/-- the encoder's document for `value` is accepted by the reference validator (computed by the kernel) -/
example : (encode facts08 {} iface cMsg.ns cMsg.name (ClassDef.toTy cMsg) (.obj cMsg.name value)).map
    (fun x => (gen (app iface [])).valid x) = [true] := by decide +kernel

open SpyneModel.Schema.Example in
/-- common-form documents on both sides of the `ge = 3` boundary -/
example : commonForm facts08 factsXml iface.tns cMsg.ns (ClassDef.toTy cMsg) goodDoc = true ∧
    commonForm facts08 factsXml iface.tns cMsg.ns (ClassDef.toTy cMsg) badDoc = true ∧
    (gen (app iface [])).valid goodDoc = true ∧ (gen (app iface [])).valid badDoc = false := by decide +kernel

/-- a bare method `x0(Derived)` of the example application: its request element lives in `urn:t`, is
    typed by `urn:a`:Derived, and `urn:t` imports `urn:a`; dropping that import breaks `compiles` -/
example :
    let S := (gen (app Example.iface [])).withMethods { elems := [(Example.T "x0", (Example.T "urn:a", Example.T "Derived"))] }
    S.compiles = true ∧ S.elements.lookup (Example.T "urn:t", Example.T "x0") = some (Example.T "urn:a", Example.T "Derived") ∧
    ({ S with imports := S.imports.filter (fun i => i.1 ≠ Example.T "urn:t") } : Schema).compiles = false := by decide +kernel

/-! ### non-vacuity: attributes (inherited, required, customised), simple content, a choice -/

open SpyneModel.Schema.ExampleA in
example : (appA iface [] [] modNs choice).wf = true ∧ (genA (appA iface [] [] modNs choice)).compiles = true ∧
    (genA (appA iface [] [] modNs choice)).ximports = [(Example.T "urn:a", Example.T "spyne.model.primitive.string")] := by
  decide +kernel

open SpyneModel.Schema.ExampleA in
/-- accepted with its attributes; rejected without the required one, with both alternatives of the
    choice, with a too long customised attribute, with non-byte simple content, with an undeclared
    attribute -/
example : (genA (appA iface [] [] modNs choice)).valid good = true ∧
    (genA (appA iface [] [] modNs choice)).valid noCur = false ∧
    (genA (appA iface [] [] modNs choice)).valid both = false ∧
    (genA (appA iface [] [] modNs choice)).valid longVer = false ∧
    (genA (appA iface [] [] modNs choice)).valid badData = false ∧
    (genA (appA iface [] [] modNs choice)).valid undeclared = false := by decide +kernel

end SpyneModel.Props.C06
