/-
  C10 (XML / SOAP part) — hostile or malformed requests end in a client fault, never a crash.
  In the model an outcome is `ok` (the function is called), `fault` (a Client.* fault is returned and
  the function is NOT called: the outcome carries no arguments) or `crash cls` (an exception other
  than Fault escapes). The theorems quantify over EVERY document tree that the XML parser (oracle)
  can deliver; bytes that are not well-formed XML are turned into Client.XMLSyntaxError by
  `create_in_document` (observed in T3). They need the repaired child-attribute loop (switch
  `childAttrGuard`) and, for SOAP, the empty-body guard (switch `emptyBodyGuard`).
-/
import Proofs.XmlServer
import Props.Facts08Good
import SpyneModel.Generated.Facts01
namespace SpyneModel.Props.C10xml
open SpyneModel SpyneModel.Xml SpyneModel.Generated

/-- deserialisation of any element at any declared type: no exception escapes -/
theorem xml_decode_no_crash (cfg : Cfg) (I : Iface) (t : Ty) (x : Node) (e : String) :
    decode facts08 factsXml cfg I t x ≠ .crash e :=
  fromElement_nocrash leafLaws08 (by decide) cfg I t x e

/-- XmlDocument server on any document: a call or a Client fault -/
theorem xml_server_no_crash (cfg : Cfg) (I : Iface) (ms : Soap.Methods) (doc : Node) (e : String) :
    Soap.xmlServerDecode facts08 factsXml cfg I ms doc ≠ .crash e :=
  xmlServerDecode_nocrash leafLaws08 (by decide) cfg I ms doc e

/-- Soap11 / Soap12 server on any document (no Envelope, empty Envelope, empty Body, unknown method,
    malformed arguments …): a call or a Client fault -/
theorem soap_server_no_crash (cfg : Cfg) (I : Iface) (ver : Soap.Version) (ms : Soap.Methods) (doc : Node)
    (e : String) : Soap.soapServerDecode facts08 factsXml factsSoap cfg I ver ms doc ≠ .crash e :=
  soapServerDecode_nocrash leafLaws08 (by decide) (by decide) cfg I ver ms doc e

/-- so every request ends in exactly one of: the function is called with some arguments, or a
    Client fault is returned without a call -/
theorem server_outcome (cfg : Cfg) (I : Iface) (ver : Soap.Version) (ms : Soap.Methods) (doc : Node) :
    (∃ k v, Soap.soapServerDecode facts08 factsXml factsSoap cfg I ver ms doc = .ok (k, v)) ∨
    Soap.soapServerDecode facts08 factsXml factsSoap cfg I ver ms doc = .fault := by
  cases h : Soap.soapServerDecode facts08 factsXml factsSoap cfg I ver ms doc with
  | ok r => exact Or.inl ⟨r.1, r.2, rfl⟩
  | fault => exact Or.inr rfl
  | crash e => exact absurd h (soap_server_no_crash cfg I ver ms doc e)

/-- non-vacuity: the empty envelope and the empty body are faults, not crashes -/
example : Soap.soapServerDecode facts08 factsXml factsSoap {} { classes := [] } .v11 []
    (.elem (Soap.envNs .v11) "Envelope".toList [] none [.elem (Soap.envNs .v11) "Body".toList [] none []]) = .fault := by
  rfl

end SpyneModel.Props.C10xml
