/-
  C04 (dict-document part) — user code only ever receives values of the declared types.
  Property theorems only, for the facts regenerated from /repo. `hasTyOne R t v`: `v` is None, a native value of
  the declared primitive kind, an instance of the declared class or of a registered subclass of it (with that
  class's members, recursively), or a list of such for an array.
-/
import Proofs.HierSafe
import SpyneModel.HierFile
import Props.Facts08Good
import SpyneModel.Generated.Facts02
namespace SpyneModel.Props.C04hier
open SpyneModel SpyneModel.Hier SpyneModel.Generated SpyneModel.Props

/-- a request without a body is a client fault -/
theorem facts02_body : facts02.missingBodyFault = true := by decide

/-- every document-level behaviour switch of the dict-document code measured on /repo has its good value -/
theorem facts02_good : facts02.Good :=
  ⟨by decide, by decide, by decide, by decide, by decide, by decide, by decide, by decide, by decide, by decide,
   by decide, by decide, by decide, by decide, by decide⟩

/-- Whatever document a client sends — any nesting of lists, mappings, strings, bytes, numbers, nulls, in any
    place — with soft validation `_from_dict_value` either faults or yields a value of the declared type; nothing is
    passed through. All four protocols, both wrapper modes, any `complex_as`, polymorphic or not. -/
theorem hier_decode_sound (cfg : Cfg) (hs : cfg.validator = .soft) (R : Registry) (hR : regWf R)
    (t : Ty) (hwf : wfTy t = true) (d : Doc) (v : Val) (l : Bool)
    (h : decode facts08 facts02 cfg R t d = .ok v l) : l = false ∧ hasTyOne R t v = true := by
  have := decode_safe R leafLaws08 facts02_good hR (cfg := cfg) d t hwf
  rw [h] at this
  exact this (by simp [Cfg.soft, hs])

/-- The same for a whole request: the argument tuple handed to the user function consists of values of the declared
    parameter types (or the method has no parameters). -/
theorem hier_request_sound (cfg : Cfg) (hs : cfg.validator = .soft) (R : Registry) (hR : regWf R)
    (name ns : Text) (base : Option Text) (fields : Fields) (o : Occ)
    (hwf : wfTy (.obj name ns base fields o) = true) (d : Doc) (v : Val) (l : Bool)
    (h : decodeRequest facts08 facts02 cfg R (.obj name ns base fields o) d = .ok v l) :
    l = false ∧ (hasTyOne R (.obj name ns base fields o) v = true ∨ v = .obj name []) := by
  have := decodeRequest_safe R leafLaws08 facts02_good facts02_body hR (cfg := cfg) name ns base fields o hwf d
  rw [h] at this
  exact this (by simp [Cfg.soft, hs])

/-- the object form of a `File` value is read with the validator of the protocol -/
theorem facts02_file : facts02.fileFormValidated = true := by decide

/-- **File.** A `File` argument or member sent in object form (`{"name": …, "type": …, "data": …}`, a positional list
    under `complex_as=list`, inside its `FileValue` wrapper without `ignore_wrappers`) is read by `_doc_to_object` as an
    object of class `File.Value` under the protocol's validator: whatever document stands there, soft validation either
    faults or builds a `File.Value` whose `name` and `type` are text (or None) and whose `data` is bytes (or None).
    As a member of another class the same holds by `hier_decode_sound` at the type that has `fileValueTy o` in the
    member's place. -/
theorem hier_file_object_form_sound (cfg : Cfg) (hs : cfg.validator = .soft) (R : Registry) (hR : regWf R)
    (o : Occ) (ho : occWf o = true) (d : Doc) (v : Val) (l : Bool)
    (h : decodeFileObj facts08 facts02 cfg R o d = .ok v l) : l = false ∧ hasTyOne R (fileValueTy o) v = true := by
  have hwf : wfTy (fileValueTy o) = true := by
    simp only [fileValueTy, wfTy, ho, Bool.true_and, Bool.and_eq_true]
    exact ⟨by decide, by decide⟩
  simp only [decodeFileObj, facts02_file, if_true] at h
  exact hier_decode_sound cfg hs R hR (fileValueTy o) hwf d v l h

/-- **Double / Decimal kind-soundness** (outside the shared universe, so stated on the measured acceptance table): for plain and
    customized Double and Decimal, as argument and as nested member, in YAML, MessagePack and MessagePack-RPC, no native
    document node that is not a number gets through soft validation, and none makes an exception escape. -/
theorem facts02_number_kinds : facts02.nonNumberForNumber = [] := by decide

/-- integer kind-soundness at the float boundary: an integral float of any magnitude (2.0, 2**53, 1e16, 1e22, negative) for an
    Integer member reaches user code as exactly that `int` — measured for json / yaml / msgpack, arguments and array items
    (the model's `intOfFloat` converts every integral float when this holds) -/
theorem facts02_int_from_float : facts02.intFromFloat = true := by decide

/-- a class with `validate_freq=False` loses only the occurrence check of its own members (`Cfg.noFreq`, `finish`): kinds and
    facets are still validated below it — `hier_decode_sound` holds for every `cfg`, whatever `cfg.noFreq` is -/
theorem facts02_nofreq_kinds : facts02.noFreqKeepsValidation = true := by decide

/-- a class selected by a wrapper key is checked to be a subclass of the declared class, whatever list it was found in
    (witness: `X` whose `Attributes` derives from `D.Attributes` and a wrapper key naming a subclass of `D`) -/
theorem facts02_retag : facts02.retagSubclassChecked = true := by decide

/-- A wrapper key can only select the declared class or a registered subclass of it: any other key — the name of an
    unrelated class of the interface included — is answered with a validation fault when the declared class has
    subclasses (with no subclasses the key is not looked at and the declared class is used). -/
theorem hier_wrapper_retag_rejected (R : Registry) (name : Text) (fs : Fields) (k : Text)
    (hk : k ≠ name) (hsubs : (subclassesOf R name).isEmpty = false)
    (hnot : ∀ c, R.find? k = some c → R.hier.isSub R.length c.name name = false) :
    resolveClass R name fs (some k) = .fault := by
  unfold resolveClass
  simp only [Option.some.injEq, hk, if_false, hsubs, Bool.false_eq_true]
  cases hf : R.find? k with
  | none => rfl
  | some c => simp [hnot c hf]

/-! ### non-vacuity: a legitimate subclass retag decodes to an instance of the subclass -/

def exBase : ClassDef := ⟨"Base".toList, "tns".toList, none, [("a".toList, .prim (.integer .i8 {}) {})]⟩
def exSub : ClassDef := ⟨"Sub".toList, "tns".toList, some "Base".toList,
  [("a".toList, .prim (.integer .i8 {}) {}), ("b".toList, .prim .boolean {})]⟩
def exOther : ClassDef := ⟨"Other".toList, "tns".toList, none, [("x".toList, .prim .boolean {})]⟩
def exReg : Registry := [exBase, exSub, exOther]
def exBaseTy : Ty := .obj "Base".toList "tns".toList none exBase.fields {}
def exCfg : Cfg := ⟨.json, .soft, false, .dict, false, false, true, [], []⟩

example : (decode facts08 facts02 exCfg exReg exBaseTy
    (.map [(.str "Sub".toList, .map [(.str "a".toList, .int 5), (.str "b".toList, .bool true)])])).okClass
    = some "Sub".toList := by decide +kernel
example : (decode facts08 facts02 exCfg exReg exBaseTy
    (.map [(.str "Other".toList, .map [(.str "x".toList, .bool true)])])).isFault = true := by decide +kernel
example : wfTy exBaseTy = true := by decide

/-- `{"name": 5}` for a File under soft validation is a fault; `{"name": "a.txt"}` builds a `File.Value` -/
example : (decodeFileObj facts08 facts02 ⟨.json, .soft, true, .dict, false, false, true, [], []⟩ [] {}
    (.map [(.str "name".toList, .int 5)])).isFault = true := by decide +kernel
example : (decodeFileObj facts08 facts02 ⟨.json, .soft, true, .dict, false, false, true, [], []⟩ [] {}
    (.map [(.str "name".toList, .str "a.txt".toList)])).okClass = some fileValueName := by decide +kernel

end SpyneModel.Props.C04hier
