/-
  C05 (dict-document part) — soft validation enforces exactly the declared constraints, the same in JSON, YAML and
  MessagePack. Property theorems only, for the facts regenerated from /repo.

  `conforms` (SpyneModel/Types.lean) is the protocol-independent specification: nullability, min/max occurrence,
  integer ranges and fixed-width bounds, string length / pattern / enumeration, lexical well-formedness.
-/
import Proofs.HierC02
import Proofs.HierSafe
import Proofs.HierExact
import Props.Facts08Good
import SpyneModel.Generated.Facts02
namespace SpyneModel.Props.C05hier
open SpyneModel SpyneModel.Hier SpyneModel.Generated SpyneModel.Props

theorem facts02_rt : facts02.GoodRT := ⟨by decide, by decide, by decide, by decide⟩
theorem facts02_mp : facts02.mpNameAnyKey = true := by decide

/-- soft-validating configuration of protocol `p` -/
def softCfg (p : Proto) (iw : Bool) : Cfg := ⟨p, .soft, iw, .dict, false, false, true, [], []⟩

/-- (⇐) Every request whose arguments satisfy the declared constraints is accepted under soft validation — the user
    function runs, with exactly those arguments — in every protocol of the family and both wrapper modes. -/
theorem hier_soft_accepts_conformant (p : Proto) (iw : Bool) (R : Registry)
    (name ns : Text) (base : Option Text) (fields : Fields) (o : Occ) (args : List (Text × Val))
    (hwf : wfTy (.obj name ns base fields o) = true) (hc : conformsFields fields args = true)
    (hmp : p.isMsgpack = true → fitsFields facts08 args = true)
    (hpl : plainFields .dict fields args = true) :
    decodeRequest facts08 facts02 (softCfg p iw) R (.obj name ns base fields o)
      (requestDoc (softCfg p iw) (convSpell facts08 (softCfg p iw) .dict) R (.obj name ns base fields o) (.obj name args))
      = .good (.obj name args) :=
  request_roundtrip R (convCtx leafLaws08 facts02_rt .dict (Or.inl rfl)) (reqKey_str facts02_mp _ rfl) name ns base fields o
    args hwf hc (fun hm => ⟨by simpa [fitsV] using hmp hm, fun h => by cases h⟩) (by simpa [plain, convSpell] using hpl) rfl

/-- The verdict for the same logical request is the same over JSON, YAML, MessagePack and MessagePack-RPC (and both
    wrapper modes): a conformant request is accepted by all of them with the same arguments. -/
theorem hier_verdict_protocol_independent (p q : Proto) (iw iw' : Bool) (R : Registry)
    (name ns : Text) (base : Option Text) (fields : Fields) (o : Occ) (args : List (Text × Val))
    (hwf : wfTy (.obj name ns base fields o) = true) (hc : conformsFields fields args = true)
    (hfit : fitsFields facts08 args = true) (hpl : plainFields .dict fields args = true) :
    decodeRequest facts08 facts02 (softCfg p iw) R (.obj name ns base fields o)
      (requestDoc (softCfg p iw) (convSpell facts08 (softCfg p iw) .dict) R (.obj name ns base fields o) (.obj name args))
    = decodeRequest facts08 facts02 (softCfg q iw') R (.obj name ns base fields o)
      (requestDoc (softCfg q iw') (convSpell facts08 (softCfg q iw') .dict) R (.obj name ns base fields o) (.obj name args)) := by
  rw [hier_soft_accepts_conformant p iw R name ns base fields o args hwf hc (fun _ => hfit) hpl,
    hier_soft_accepts_conformant q iw' R name ns base fields o args hwf hc (fun _ => hfit) hpl]


/-- a request without a body is a client fault -/
theorem facts02_body : facts02.missingBodyFault = true := by decide

theorem facts02_good : facts02.Good :=
  ⟨by decide, by decide, by decide, by decide, by decide, by decide, by decide, by decide, by decide, by decide,
   by decide, by decide, by decide, by decide, by decide⟩

/-- a class with `validate_freq=False` only loses the occurrence check of its own members: kinds and facets are still checked,
    also in nested objects (witness: `{"owner": 5}` for a Unicode member of such a class is a fault; two values for
    `max_occurs=1`… are accepted) -/
theorem facts02_nofreq : facts02.noFreqKeepsValidation = true := by decide

/-- non-interference: the attribute caches (incl. per-protocol attributes) are per protocol instance, so the verdict of a
    configuration is the function of (configuration, types, document) the theorems below are about — it does not depend on
    other protocol instances in the process or on the order in which they first used a type (T3: `probe_prot_attrs`) -/
theorem facts02_attr_caches : facts02.attrCachesPerInstance = true := by decide

/-- the enumeration facet treats the falsy values of a kind ('' / 0 / 0.0 / False) like any other value: only `None` passes
    for a nillable type -/
theorem facts02_values_none : facts02.valuesNullTestIsNone = true := by decide

/-- `validate_string` is applied to Unicode text that arrives as bytes as well -/
theorem facts02_bint : facts02.binTextValidated = true := by decide

/-- (⇒) Whatever document a client sends, in any protocol of the family and either wrapper mode: if soft validation
    lets it through, the decoded value satisfies EVERY declared constraint of its type — nullability, min/max
    occurrence (counted per value), integer ranges and fixed-width bounds, string length, pattern, enumeration, lexical
    well-formedness — at every nesting position. `hnf`: no class opts out of the occurrence check (`validate_freq=False`
    classes keep every kind and facet check — `hier_decode_sound` holds for them, and `facts02_nofreq` — but not min/max_occurs
    of their own members). (Types without registered subclasses: `conformsOne` demands the exact
    class; `c05Ty`: wrapped arrays are optional or nillable, see the known finding on required arrays.) -/
theorem hier_soft_accepts_only_conformant (cfg : Cfg) (hs : cfg.validator = .soft) (hnf : cfg.noFreq = [])
    (t : Ty) (hwf : wfTy t = true) (h5 : c05Ty t = true) (d : Doc) (v : Val) (l : Bool)
    (h : decode facts08 facts02 cfg [] t d = .ok v l) : l = false ∧ conformsOne t v = true := by
  have := decode_ex (cfg := cfg) leafLaws08 facts02_good ⟨facts02_bint, hnf⟩ d t hwf h5
  rw [h] at this
  exact this (by simp [Cfg.soft, hs])

/-- The same for a whole request: the user function only runs with argument tuples that conform. -/
theorem hier_soft_request_only_conformant (cfg : Cfg) (hs : cfg.validator = .soft) (hnf : cfg.noFreq = [])
    (name ns : Text) (base : Option Text) (fields : Fields) (o : Occ)
    (hwf : wfTy (.obj name ns base fields o) = true) (h5 : c05Ty (.obj name ns base fields o) = true)
    (d : Doc) (v : Val) (l : Bool)
    (h : decodeRequest facts08 facts02 cfg [] (.obj name ns base fields o) d = .ok v l) :
    l = false ∧ (conformsOne (.obj name ns base fields o) v = true ∨ v = .obj name []) := by
  have := decodeRequest_ex (cfg := cfg) leafLaws08 facts02_good ⟨facts02_bint, hnf⟩ facts02_body name ns base fields o hwf h5 d
  rw [h] at this
  exact this (by simp [Cfg.soft, hs])

/-- `hier_soft_iff_conforms`: for a value of the declared shape, written the way the protocol writes it, soft validation
    accepts it — and hands exactly that value on — if and only if it satisfies the declared constraints.
    JSON and YAML in full; MessagePack under the side conditions of its own round trip (`fitsV`, `mpReadable`). -/
theorem hier_soft_iff_conforms (cfg : Cfg) (hs : cfg.validator = .soft) (hnf : cfg.noFreq = []) (hsc : cfg.selfConsistent = true)
    (t : Ty) (hwf : wfTy t = true) (h5 : c05Ty t = true) (v : Val) (hv : v ≠ .none)
    (hmp : cfg.proto.isMsgpack = true → fitsV facts08 v = true ∧ mpReadable t = true)
    (hpl : plain cfg.complexAs t v = true) :
    decode facts08 facts02 cfg [] t (encOne [] (ownSpell facts08 cfg) t v) = .good v ↔ conformsOne t v = true := by
  constructor
  · intro h
    exact (hier_soft_accepts_only_conformant cfg hs hnf t hwf h5 _ v false h).2
  · intro hc
    exact rt_ty [] (ownCtx leafLaws08 facts02_rt hsc) t v hv hwf hc
      (fun hm => ⟨(hmp hm).1, fun _ => (hmp hm).2⟩) (by simpa [ownSpell] using hpl)

/-- A value that violates a declared constraint is never handed to user code as it is: its own encoding is not
    accepted with that value (it is refused, or — never under the proved soundness — altered). -/
theorem hier_soft_rejects_nonconformant (cfg : Cfg) (hs : cfg.validator = .soft) (hnf : cfg.noFreq = [])
    (t : Ty) (hwf : wfTy t = true) (h5 : c05Ty t = true) (v : Val) (hnc : conformsOne t v = false) (d : Doc) (l : Bool) :
    decode facts08 facts02 cfg [] t d ≠ .ok v l := by
  intro h
  have := (hier_soft_accepts_only_conformant cfg hs hnf t hwf h5 d v l h).2
  rw [hnc] at this; cases this

/-! ### non-vacuity -/

def exTy : Ty := .obj "f".toList "tns".toList none
  [("n".toList, .prim (.integer .u8 { le := some 200 }) { nillable := false, minOccurs := 1 }),
   ("m".toList, .prim (.unicode 1 (some 3) none []) { maxOccurs := some 2 })] {}

example : wfTy exTy = true ∧ c05Ty exTy = true := by decide
-- 201 violates `le`, 3 strings violate max_occurs=2, a missing `n` violates min_occurs=1: all refused
example : (decode facts08 facts02 (softCfg .json true) [] exTy (.map [(.str "n".toList, .int 201)])).isFault = true := by decide +kernel
example : (decode facts08 facts02 (softCfg .yaml true) [] exTy
    (.map [(.str "n".toList, .int 7), (.str "m".toList, .list [.str "a".toList, .str "b".toList, .str "c".toList])])).isFault = true := by
  decide +kernel
example : (decode facts08 facts02 (softCfg .msgpack true) [] exTy (.map [(.bytes [109], .list [.str "a".toList])])).isFault = true := by
  decide +kernel
example : (decode facts08 facts02 (softCfg .json true) [] exTy
    (.map [(.str "n".toList, .int 200), (.str "m".toList, .list [.str "abc".toList])])).okClass = some "f".toList := by decide +kernel

end SpyneModel.Props.C05hier
