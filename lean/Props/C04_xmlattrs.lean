/-
  C04 (XML part), continued — classes with XmlAttribute / XmlData members (SpyneModel/XmlAttr.lean, vocabulary
  in Props/C01_attrs.lean). `hasTyOneA I t v`: `v` is None, a native value of the declared primitive kind, an
  instance of the declared class or of a registered descendant whose element members have their declared
  types and whose attribute / data members hold None or a native value of the kind of the type they wrap
  (`XmlAttribute(Integer)` never delivers a string), or a list of such — recursively.
  For EVERY document tree, every validator setting and both states of the child-attribute loop (what that
  loop assigned was converted with the member's own type: the defect is one of C01, not of C04).
-/
import Proofs.XmlAttrSound
import Props.Facts08Good
import SpyneModel.Generated.Facts01
namespace SpyneModel.Props.C04xmlattrs
open SpyneModel SpyneModel.Xml SpyneModel.Generated

/-- whatever `from_element` returns for a class with attribute / data members has the declared type -/
theorem xml_decode_sound_attrs (cfg : Cfg) (I : IfaceA) (hI : ifaceWfA I = true) (t : TyA) (ht : tyWfA t = true)
    (x : Node) (v : Val) (h : decodeA facts08 factsXml factsAttr cfg I t x = .ok v) : hasTyOneA I t v = true :=
  fromElementA_sound leafLaws08 (by decide) factsAttr cfg hI t x v ht h

/-- an attribute value / the element text that is delivered is of the kind of the wrapped type -/
theorem modifier_value_kind (cfg : Cfg) (p : PrimTy) (s : Text) (v : Val)
    (h : modifierValue facts08 factsAttr cfg p s = .ok v) : p.kindOk v = true :=
  modifierValue_sound leafLaws08 factsAttr cfg p s v h

/-- an Enum element is read as a member of the enumeration or not at all: a text that is no member — the name of a
    Python attribute of the Enum class included — is a fault, never a value -/
theorem enum_text_must_be_a_member (names : List Text) (s : Text) (h : names.contains s = false) :
    leafFromText facts08 (.enum names) s = .fault := by
  have hm : ¬ s ∈ names := by simpa using h
  simp [leafFromText]
  exact hm

theorem enum_member_is_read (names : List Text) (s : Text) (h : names.contains s = true) :
    leafFromText facts08 (.enum names) s = .ok (.enum s) := by
  have hm : s ∈ names := by simpa using h
  simp [leafFromText]
  exact hm

/-! ### non-vacuity -/
def exB : TyA := .obj "B".toList "urn:x".toList none
  [("id".toList, .attribute, .prim (.integer .i32 {}) { minOccurs := 1 }),
   ("kid".toList, .element, .obj "K".toList "urn:x".toList none
      [("id".toList, .attribute, .prim (.integer .i32 {}) {})] {})] {}
example : tyWfA exB = true := by decide
example : ifaceWfA ⟨[], [], []⟩ = true := by decide
example : hasTyOneA ⟨[], [], []⟩ exB (.obj "B".toList [("id".toList, .int 7),
    ("kid".toList, .obj "K".toList [("id".toList, .none)])]) = true := by decide
example : hasTyOneA ⟨[], [], []⟩ exB (.obj "B".toList [("id".toList, .str "7".toList), ("kid".toList, .none)]) = false := by
  decide

end SpyneModel.Props.C04xmlattrs
