/-
  C05 (XML / SOAP part) — soft validation enforces exactly the declared constraints.

  "accepted iff every value satisfies the declared constraints" is proved as its two halves, for all
  types, all nesting depths, all three XML protocols (the envelope layer adds nothing: Props/C01):
    IF      `xml_soft_accepts_conformant`: a request written from values that satisfy every declared
            constraint is accepted and the function receives those values;
    ONLY IF `xml_soft_accepted_conforms`: for EVERY request document (not only well-meant ones), whatever
            the soft validator lets through to the function satisfies every declared constraint —
            nullability, min/max occurrence, ranges, fixed-width bounds, length, pattern, enumerated
            values, lexical well-formedness — recursively (`okOneX I true false`: `conformsOne` over
            the registry, i.e. an xsi:type-selected registered subclass conforms with its own members).
  The only-if half is stated about the DELIVERED value; to restate it about the value a request was
  written from one needs, in addition, that a leaf text denotes one value only (text → value is a
  function, so it does; value → text → value for non-conformant values is not part of `LeafLaws`).
  Also here: each enforcement point shown exact in isolation (`xml_soft_leaf_exact` — this is
  `xml_soft_lexical` and the facet lattice at a leaf —, `xml_soft_empty_element`,
  `xml_soft_nil_exact`, `xml_soft_freq_enforced`).
  `tyCons I t` / `ifaceCons I`: an object type that names a registered class lists that class's
  members (true by construction for types read off live classes).
-/
import Proofs.XmlAccept
import Proofs.XmlBridge
import Props.Facts08Good
import SpyneModel.Generated.Facts01
namespace SpyneModel.Props.C05xml
open SpyneModel SpyneModel.Xml SpyneModel.Generated

/-- a request whose values satisfy every declared constraint is accepted, and the values arrive -/
theorem xml_soft_accepts_conformant (cfg : Cfg) (hv : cfg.validator = .soft) (hP : cfg.parseXsiType = true)
    (I : Iface) (hI : ifaceWf I = true) (ns name : Text) (t : Ty) (ht : tyWf t = true)
    (v : Val) (hc : okOneX I false true t v = true) (hf : fitsV facts08 v = true) :
    ∃ e, encode facts08 cfg I ns name t v = [e] ∧
      decode facts08 factsXml cfg I t e = .ok (normOne t v) := by
  have C : RtCtx facts08 factsXml cfg I :=
    { L := leafLaws08, hE := fun _ => by decide, hN := by decide, hP := hP, hI := hI }
  have hs : cfg.soft = true := by simp [Cfg.soft, hv]
  have hok : okOneX I cfg.polymorphic cfg.soft t v = true :=
    okOneX_mono I (p := false) (s := true) (by simp) (by simp) t v hc
  have hc' : conformsOne t v = true := by
    rw [← okOneX_eq I]; exact okOneX_mono I (by simp) (by simp) t v hc
  obtain ⟨e, he, hd⟩ := one_rt C ns name t ht v hok hf
  exact ⟨e, he, by rw [← normOneX_eq I t v hc']; exact hd⟩

/-- ONLY IF: whatever document arrives, a value delivered under soft validation satisfies every
    declared constraint -/
theorem xml_soft_accepted_conforms (cfg : Cfg) (hv : cfg.validator = .soft) (I : Iface) (hI : ifaceWf I = true)
    (hC : ifaceCons I) (t : Ty) (ht : tyWf t = true) (hc : tyCons I t) (x : Node) (w : Val)
    (h : decode facts08 factsXml cfg I t x = .ok w) : okOneX I true false t w = true :=
  fromElement_acc { L := leafLaws08, hE := by decide, hX := by decide, hs := by simp [Cfg.soft, hv], hI := hI, hC := hC }
    t ht hc x w h

/-- the same at the server: the in-object of a dispatched call conforms to the in-message type, so
    the user function is only ever entered with arguments that satisfy their declared constraints -/
theorem xml_soft_server_accepted_conforms (cfg : Cfg) (hv : cfg.validator = .soft) (I : Iface) (hI : ifaceWf I = true)
    (hC : ifaceCons I) (ms : Soap.Methods) (hms : ∀ k t, ms.lookup k = some t → tyWf t = true ∧ tyCons I t)
    (doc : Node) (k : Text) (w : Val) (h : Soap.xmlServerDecode facts08 factsXml cfg I ms doc = .ok (k, w)) :
    ∃ t, ms.lookup k = some t ∧ okOneX I true false t w = true := by
  unfold Soap.xmlServerDecode at h
  split at h
  · cases h
  · rename_i t hm
    split at h
    · rename_i w' hw
      injection h with h
      injection h with h1 h2
      subst h2
      obtain ⟨ht, hc⟩ := hms _ t hm
      exact ⟨t, by rw [← h1]; exact hm, xml_soft_accepted_conforms cfg hv I hI hC t ht hc doc _ hw⟩
    · cases h
    · cases h

/-- a leaf element with text `s` is accepted iff `s` is in the lexical space of the declared type AND
    the value satisfies every declared facet (range, fixed-width bounds, length, pattern, enumerated
    values); the accepted value is the parsed one. `leafSpec` is that specification. -/
theorem xml_soft_leaf_exact (cfg : Cfg) (hv : cfg.validator = .soft) (p : PrimTy) (o : Occ) (s : Text) :
    leafFromElement facts08 factsXml cfg p o (some s) = leafSpec facts08 p s :=
  soft_leaf_exact leafLaws08 factsXml cfg (by simp [Cfg.soft, hv]) p o s

/-- lexically ill-formed text is rejected, never coerced -/
theorem xml_soft_lexical (cfg : Cfg) (hv : cfg.validator = .soft) (p : PrimTy) (o : Occ) (s : Text)
    (h : leafFromText facts08 p s = .fault) : leafFromElement facts08 factsXml cfg p o (some s) = .fault := by
  rw [xml_soft_leaf_exact cfg hv]; simp [leafSpec, h]

/-- a well-formed value outside a declared facet is rejected -/
theorem xml_soft_facet_violation (cfg : Cfg) (hv : cfg.validator = .soft) (p : PrimTy) (o : Occ) (s : Text) (v : Val)
    (h : leafFromText facts08 p s = .ok v) (hbad : p.valueOk v = false) :
    leafFromElement facts08 factsXml cfg p o (some s) = .fault := by
  rw [xml_soft_leaf_exact cfg hv]; simp [leafSpec, h, hbad]

/-- … and one inside all of them is accepted unchanged -/
theorem xml_soft_facets_ok (cfg : Cfg) (hv : cfg.validator = .soft) (p : PrimTy) (o : Occ) (s : Text) (v : Val)
    (h : leafFromText facts08 p s = .ok v) (hok : p.valueOk v = true) :
    leafFromElement facts08 factsXml cfg p o (some s) = .ok v := by
  rw [xml_soft_leaf_exact cfg hv]; simp [leafSpec, h, hok]

/-- an empty element is the empty string for string types (checked like any text) and None for the
    others, accepted iff nillable -/
theorem xml_soft_empty_element (cfg : Cfg) (hv : cfg.validator = .soft) (p : PrimTy) (o : Occ) :
    leafFromElement facts08 factsXml cfg p o none =
      (match p with
       | .unicode _ _ _ _ => leafSpec facts08 p []
       | .enum _ => .fault
       | _ => if o.nillable then .ok .none else .fault) :=
  soft_leaf_empty leafLaws08 (by decide) cfg (by simp [Cfg.soft, hv]) p o

/-- nullability: an element with `xsi:nil` true is accepted iff the declared type is nillable;
    `xsi:nil="false"` is not nil (switch `nilRule`) -/
theorem xml_soft_nil_exact (cfg : Cfg) (hv : cfg.validator = .soft) (I : Iface) (t : Ty)
    (ns name : Text) (attrs : List (Text × Text)) (text : Option Text) (children : List Node)
    (hnil : isNil factsXml attrs = true) :
    decode facts08 factsXml cfg I t (.elem ns name attrs text children) =
      if t.occ.nillable then .ok .none else .fault :=
  soft_nil_exact facts08 factsXml cfg (by simp [Cfg.soft, hv]) I t ns name attrs text children hnil

theorem xsi_nil_false_is_not_nil (rest : List (Text × Text)) :
    isNil factsXml ((xsiNilKey, "false".toList) :: rest) = false ∧
    isNil factsXml ((xsiNilKey, "0".toList) :: rest) = false ∧
    isNil factsXml ((xsiNilKey, "true".toList) :: rest) = true ∧
    isNil factsXml ((xsiNilKey, "1".toList) :: rest) = true := by
  have h : factsXml.nilRule = .xsdBoolean := by decide
  simp [isNil, List.lookup, h]

/-- occurrence constraints: an accepted object has every member within min_occurs..max_occurs -/
theorem xml_soft_freq_enforced (cfg : Cfg) (hv : cfg.validator = .soft) (hP : cfg.parseXsiType = true)
    (I : Iface) (cname cns : Text) (cb : Option Text) (fields : List (Text × Ty)) (o : Occ)
    (ns name : Text) (attrs : List (Text × Text)) (text : Option Text) (children : List Node) (v : Val)
    (hx : attrs.lookup xsiTypeKey = none)
    (h : decode facts08 factsXml cfg I (.obj cname cns cb fields o) (.elem ns name attrs text children) = .ok v)
    (hne : v ≠ .none) : freqOk fields children = true :=
  soft_freq_enforced facts08 factsXml cfg (by simp [Cfg.soft, hv]) hP I cname cns cb fields o ns name attrs text
    children v hx h hne

/-! ### non-vacuity -/
example : ifaceCons { classes := [] } := by intro c hc; cases hc
example : tyCons { classes := [] } (.obj "A".toList [] none [("x".toList, .prim .boolean {})] {}) := by
  simp [tyCons, fieldsCons, Registry.find?]
example : leafSpec facts08 (.integer .u8 {}) "255".toList = .ok (.int 255) := by rfl
example : leafSpec facts08 (.integer .u8 {}) "256".toList = .fault := by rfl
example : leafSpec facts08 (.integer .u8 {}) "1_0".toList = .ok (.int 10) := by rfl
example : leafSpec facts08 .boolean "junk".toList = .fault := by rfl

end SpyneModel.Props.C05xml
