/-
  C01, continued — SOAP headers (both directions), every body style, multiple return values and the
  Spyne client's call packing. Same vocabulary as Props/C01.lean; `okOneX I cfg.polymorphic cfg.soft t v`
  is "v conforms to t" (over the registry; with an empty byte string counting as None under soft
  validation), `normOneX` applies the three identifications of the statement.

  Headers: `Soap.headerPairs` is what `Soap11.serialize` puts into `Header` (one `to_parent` per declared
  header class and supplied object, in declared order), `Soap.soapServerDecodeH` / `Soap.soapInHeader` is
  what `Soap11.deserialize` hands over as `ctx.in_header` (lookup by QName, declared order, one object
  directly, otherwise a list). The same two functions serve the response direction with the out-header
  classes. `Soap.argsOf` are the positional arguments of the user function for the method's body style,
  `Soap.responseNodes` the body entry of the response, `Client.pack` / `Client.unwrap` are
  `RemoteProcedureBase.get_out_object` / `get_in_object`.
-/
import Proofs.XmlClient
import Props.Facts08Good
import SpyneModel.Generated.Facts01
namespace SpyneModel.Props.C01ext
open SpyneModel SpyneModel.Xml SpyneModel.Soap SpyneModel.Client SpyneModel.Generated

/-- the environment of the round-trip lemmas for the facts measured on /repo, every validator -/
theorem rtCtx (cfg : Cfg) (hP : cfg.parseXsiType = true) (I : Iface) (hI : ifaceWf I = true) :
    RtCtx facts08 factsXml cfg I :=
  { L := leafLaws08, hE := fun _ => by decide, hN := by decide, hP := hP, hI := hI }

/-! ### SOAP headers -/

/-- request direction: header objects written for the declared in-header classes arrive as
    `ctx.in_header` (declared order; 1 class → the object, 0 or ≥ 2 → a list), next to the arguments -/
theorem soap_in_headers_reach_function (cfg : Cfg) (hP : cfg.parseXsiType = true) (I : Iface) (hI : ifaceWf I = true)
    (ver : Version) (ms : Methods) (hdrs : Text → Option (List Ty)) (name : Text) (t : Ty) (ht : tyWf t = true)
    (hm : ms.lookup (clark I.tns name) = some t) (hnf : ¬ (I.tns = envNs ver ∧ name = "Fault".toList))
    (hs : List Ty) (hh : hdrs (clark I.tns name) = some hs) (hnd : textsNodup (hs.map headerKey) = true)
    (hobj : ∀ h ∈ hs, isObjTy h = true ∧ tyWf h = true) (hvals : List Val)
    (hhok : ∀ p ∈ hs.zip hvals, okOneX I cfg.polymorphic cfg.soft p.1 p.2 = true ∧ fitsV facts08 p.2 = true)
    (args : Val) (hok : okOneX I cfg.polymorphic cfg.soft t args = true) (hfit : fitsV facts08 args = true) :
    ∃ e, encode facts08 cfg I I.tns name t args = [e] ∧
      soapServerDecodeH facts08 factsXml factsSoap cfg I ver ms hdrs
          (envelopeH ver (some (headerPairs facts08 cfg I hs hvals)) [e]) =
        .ok (clark I.tns name, some (inHeaderValue (expectHdr I hs hvals)), normOneX I t args) :=
  soap_server_rt_headers (rtCtx cfg hP I hI) factsSoap ver ms hdrs name t ht hm hnf hs hh hnd hobj hvals hhok args hok hfit

/-- a request without Header leaves `ctx.in_header` None -/
theorem soap_no_header_is_none (cfg : Cfg) (hP : cfg.parseXsiType = true) (I : Iface) (hI : ifaceWf I = true)
    (ver : Version) (ms : Methods) (hdrs : Text → Option (List Ty)) (name : Text) (t : Ty) (ht : tyWf t = true)
    (hm : ms.lookup (clark I.tns name) = some t) (hnf : ¬ (I.tns = envNs ver ∧ name = "Fault".toList))
    (args : Val) (hok : okOneX I cfg.polymorphic cfg.soft t args = true) (hfit : fitsV facts08 args = true) :
    ∃ e, encode facts08 cfg I I.tns name t args = [e] ∧
      soapServerDecodeH facts08 factsXml factsSoap cfg I ver ms hdrs (envelope ver [e]) =
        .ok (clark I.tns name, none, normOneX I t args) :=
  soap_server_rt_no_header (rtCtx cfg hP I hI) factsSoap ver ms hdrs name t ht hm hnf args hok hfit

/-- response direction: whether user code assigns `ctx.out_header` one object, a list or a TUPLE, the
    Header written holds one element per supplied object for the declared out-header classes in declared
    order, and the receiver (`deserialize` of the response) gets those objects back -/
theorem soap_out_headers_reach_client (cfg : Cfg) (hP : cfg.parseXsiType = true) (I : Iface) (hI : ifaceWf I = true)
    (ver : Version) (hs : List Ty) (hnd : textsNodup (hs.map headerKey) = true)
    (hobj : ∀ h ∈ hs, isObjTy h = true ∧ tyWf h = true) (out : OutHeader) (hvals : List Val)
    (hout : out = .list hvals ∨ out = .tuple hvals ∨ (∃ v, out = .single v ∧ hvals = [v]))
    (hhok : ∀ p ∈ hs.zip hvals, okOneX I cfg.polymorphic cfg.soft p.1 p.2 = true ∧ fitsV facts08 p.2 = true)
    (body : List Node) :
    headerNodes facts08 factsSoap cfg I (some hs) out = .ok (some (headerPairs facts08 cfg I hs hvals)) ∧
    soapInHeader facts08 factsXml cfg I ver (some hs)
        (envelopeH ver (some (headerPairs facts08 cfg I hs hvals)) body) =
      .ok (some (inHeaderValue (expectHdr I hs hvals))) :=
  out_headers_rt (rtCtx cfg hP I hI) factsSoap (by decide) ver hs hnd hobj out hvals hout hhok body

/-- a tuple is a sequence of header objects exactly like a list (switch `outHeaderTupleOk`) -/
theorem out_header_tuple_like_list (cfg : Cfg) (I : Iface) (classes : Option (List Ty)) (vs : List Val) :
    headerNodes facts08 factsSoap cfg I classes (.tuple vs) = headerNodes facts08 factsSoap cfg I classes (.list vs) := by
  have h : factsSoap.outHeaderTupleOk = true := by decide
  cases classes <;> simp [headerNodes, h]

/-- no out header assigned, or none declared: no Header element -/
theorem no_out_header_no_element (cfg : Cfg) (I : Iface) (classes : Option (List Ty)) :
    headerNodes facts08 factsSoap cfg I classes .none = .ok none := by
  cases classes <;> rfl

/-! ### body styles and multiple return values -/

/-- the request of ANY body style: the body entry `{tns}name` is deserialised at the in-message class
    (`t` is the wrapper class, or — bare — the type of the single argument) and the function is called
    with `argsOf style` of it: the wrapper's members in order, the bare argument itself, or nothing -/
theorem request_fidelity_any_style (cfg : Cfg) (hP : cfg.parseXsiType = true) (I : Iface) (hI : ifaceWf I = true)
    (ms : Methods) (name : Text) (t : Ty) (ht : tyWf t = true) (hm : ms.lookup (clark I.tns name) = some t)
    (style : Style) (v : Val) (hok : okOneX I cfg.polymorphic cfg.soft t v = true) (hfit : fitsV facts08 v = true) :
    ∃ e, encode facts08 cfg I I.tns name t v = [e] ∧
      (Soap.xmlServerDecode facts08 factsXml cfg I ms e).map (fun r => (r.1, argsOf style r.2)) =
        .ok (clark I.tns name, argsOf style (normOneX I t v)) := by
  obtain ⟨e, he, hd⟩ := xml_server_rt (rtCtx cfg hP I hI) ms name t ht hm v hok hfit
  exact ⟨e, he, by rw [hd]; rfl⟩

theorem argsOf_bare (v : Val) : argsOf .bare v = [v] := rfl
theorem argsOf_empty (v : Val) : argsOf .empty v = [] := rfl
theorem argsOf_wrapped (name : Text) (fs : List (Text × Val)) : argsOf .wrapped (.obj name fs) = fs.map (·.2) := rfl

/-- the response of ANY body style denotes what the function returned: wrapped → the out-message object
    with one member per declared return value (multiple return values included), bare / out_bare / empty →
    the single return value as the body entry itself. The receiver's `from_element` at the out-message
    class reads it back. -/
theorem response_fidelity_any_style (cfg : Cfg) (hP : cfg.parseXsiType = true) (I : Iface) (hI : ifaceWf I = true)
    (style : Style) (outName : Text) (outMsg : Ty) (ht : tyWf outMsg = true)
    (hw : style.outWrapped = true → isObjTy outMsg = true) (rets : List Val)
    (hok : okOneX I cfg.polymorphic cfg.soft outMsg (respValue factsSoap style outMsg rets) = true)
    (hfit : fitsV facts08 (respValue factsSoap style outMsg rets) = true) :
    ∃ e, responseNodes facts08 factsSoap cfg I style outName outMsg rets = [e] ∧
      decode facts08 factsXml cfg I outMsg e = .ok (normOneX I outMsg (respValue factsSoap style outMsg rets)) :=
  response_rt (rtCtx cfg hP I hI) factsSoap style outName outMsg ht hw rets hok hfit

/-- a method that is not wrapped and returns nothing answers with the empty element of its member-less response
    class (switch `bareNothingIsEmptyElement`), which is what the receiver reads back -/
theorem bare_nothing_is_the_empty_response (cfg : Cfg) (I : Iface) (style : Style) (hs : style.outWrapped = false)
    (outName name ns : Text) (b : Option Text) (o : Occ) :
    responseNodes facts08 factsSoap cfg I style outName (.obj name ns b [] o) [] = [.elem I.tns outName [] none []] := by
  have h : factsSoap.bareNothingIsEmptyElement = true := by decide
  simp [responseNodes, hs, bareReturn, h, toParent, polyTarget, membersToParent]

/-- multiple return values: the i-th return value is the i-th member of the response object -/
theorem multiple_returns_in_order (name ns : Text) (b : Option Text) (k1 k2 : Text) (t1 t2 : Ty) (o : Occ) (r1 r2 : Val) :
    respValue factsSoap .wrapped (.obj name ns b [(k1, t1), (k2, t2)] o) [r1, r2] = .obj name [(k1, r1), (k2, r2)] := rfl

/-! ### the Spyne client -/

/-- `proc(*args, **kwargs)`: member `k` (the i-th of the request class) is the keyword argument `k` if one
    is given — WHATEVER its value: 0, False, '', Decimal 0 reach the server like any other — else the
    i-th positional argument, else None (switch `kwFalsyKept`) -/
theorem client_packs_every_keyword (fields : List (Text × Ty)) (args : List Val) (kwargs : List (Text × Val))
    (i : Nat) (k : Text) (t : Ty) (h : fields[i]? = some (k, t)) :
    (pack factsClient fields args kwargs)[i]? = some (k, (kwargs.lookup k).getD (args.getD i Val.none)) :=
  pack_getElem factsClient (by decide) fields args kwargs i k t h

/-- client fidelity (wrapped methods, the call style the client supports): the request object packed
    from the call reaches the function member by member, and the value the function returns reaches the
    caller: the wrapper with one member is unwrapped, several return values arrive as the wrapper object -/
theorem client_call_fidelity (cfg : Cfg) (hP : cfg.parseXsiType = true) (I : Iface) (hI : ifaceWf I = true)
    (ms : Methods) (name : Text) (inMsg outMsg : Ty) (hti : tyWf inMsg = true) (hto : tyWf outMsg = true)
    (hio : isObjTy outMsg = true) (hm : ms.lookup (clark I.tns name) = some inMsg)
    (args : List Val) (kwargs : List (Text × Val))
    (hok : okOneX I cfg.polymorphic cfg.soft inMsg (requestObject factsClient inMsg args kwargs) = true)
    (hfit : fitsV facts08 (requestObject factsClient inMsg args kwargs) = true)
    (rets : List Val) (outName : Text)
    (hrok : okOneX I cfg.polymorphic cfg.soft outMsg (outObject outMsg rets) = true)
    (hrfit : fitsV facts08 (outObject outMsg rets) = true) :
    (∃ e, encode facts08 cfg I I.tns name inMsg (requestObject factsClient inMsg args kwargs) = [e] ∧
      Soap.xmlServerDecode facts08 factsXml cfg I ms e =
        .ok (clark I.tns name, normOneX I inMsg (requestObject factsClient inMsg args kwargs))) ∧
    (∃ e', responseNodes facts08 factsSoap cfg I .wrapped outName outMsg rets = [e'] ∧
      (decode facts08 factsXml cfg I outMsg e').map (unwrap outMsg) =
        .ok (unwrap outMsg (normOneX I outMsg (outObject outMsg rets)))) := by
  refine ⟨xml_server_rt (rtCtx cfg hP I hI) ms name inMsg hti hm _ hok hfit, ?_⟩
  obtain ⟨e', he', hd'⟩ := response_rt (rtCtx cfg hP I hI) factsSoap .wrapped outName outMsg hto (fun _ => hio) rets
    (by simpa [respValue, Style.outWrapped] using hrok) (by simpa [respValue, Style.outWrapped] using hrfit)
  refine ⟨e', he', ?_⟩
  rw [decode, hd']
  simp [Outcome.map, respValue, Style.outWrapped]

/-! ### non-vacuity -/

def exH1 : Ty := .obj "Session".toList "urn:x".toList none [("token".toList, .prim (.unicode 0 none none []) {})] {}
def exH2 : Ty := .obj "Trace".toList "urn:h".toList none [("hop".toList, .prim (.integer .unbounded {}) {})] {}
def exIn : Ty := .obj "m".toList "urn:x".toList none
  [("i".toList, .prim (.integer .unbounded {}) {}), ("b".toList, .prim .boolean {}), ("s".toList, .prim (.unicode 0 none none []) {})] {}

example : textsNodup ([exH1, exH2].map headerKey) = true := by decide
example : isObjTy exH1 = true ∧ tyWf exH1 = true := by decide
example : expectHdr { classes := [] } [exH1, exH2] [.obj "Session".toList [("token".toList, .str "t".toList)]] =
    [.obj "Session".toList [("token".toList, .str "t".toList)], .none] := by rfl
/-- falsy keyword values are packed like any other -/
example : requestObject factsClient exIn [] [("i".toList, .int 0), ("b".toList, .bool false), ("s".toList, .str [])] =
    .obj "m".toList [("i".toList, .int 0), ("b".toList, .bool false), ("s".toList, .str [])] := by rfl
example : requestObject factsClient exIn [.int 7] [("s".toList, .str [])] =
    .obj "m".toList [("i".toList, .int 7), ("b".toList, .none), ("s".toList, .str [])] := by rfl

end SpyneModel.Props.C01ext
