/-
  C01, continued — XML attributes and XmlData (the quantifier "XML attributes/XmlData" of the property).

  The universe of Props/C01.lean has element members only. `TyA` (SpyneModel/XmlAttr.lean) is that universe
  with a kind on every member of a class: `element`, `attribute` (`XmlAttribute(T)`: written by
  xmlattribute_to_parent as an attribute of the element, read by the loop over the element's own attributes)
  or `data` (`XmlData(T)`: written by XmlData.marshall as the text of the element, read by `_xml_tag_body_as`).
  `encodeA` / `decodeA` are `to_parent` / `from_element` for these classes; on the element-only universe they
  ARE `encode` / `decode` (`attrs_decode_is_decode`, `attrs_encode_is_encode`), so the statements of
  Props/C01.lean are statements about this model too.

  `tyWfA t`: member names are distinct Python identifiers, attribute and data members wrap primitives that
  occur at most once, a class with an XmlData member is simple content (no element members, one data member,
  optional) — what XSD lets a schema say. `okOneA strict t v`: every declared constraint holds, an attribute
  / data member holds None (only if not required) or a value within the facets of its type.
  `normOneA` = the identifications of the statement (`normOneX`), plus: the text of an element cannot tell
  the empty string / byte string of an XmlData member from None (`dataNorm`). Attribute values are NOT
  normalised: `a=""` is the empty string.
  Switches (measured on /repo, `factsAttr`): `childAttrsIgnored`, `attrSoftChecked`.
-/
import Proofs.XmlAttrRoundtrip
import Proofs.XmlAttrBridge
import Proofs.XmlAttrKinds
import Props.Facts08Good
import SpyneModel.Generated.Facts01
namespace SpyneModel.Props.C01attrs
open SpyneModel SpyneModel.Xml SpyneModel.Generated

/-- the environment of the round-trip lemmas for the facts measured on /repo, every validator -/
theorem rtCtxA (cfg : Cfg) : RtCtxA facts08 factsXml factsAttr cfg :=
  { L := leafLaws08, hE := fun _ => by decide, hN := by decide, hLeak := by decide, hSoft := fun _ => by decide }

/-- C01 for classes with attribute and data members: for every well-formed type, every conformant value and
    every validator setting (None, soft; xsi:type parsing on or off, any registry), what `to_parent` writes is
    ONE element and `from_element` reads the value back from it — attribute members from its attributes, the
    data member from its text, element members from its children, at every nesting depth -/
theorem xml_roundtrip_attrs (cfg : Cfg) (I : IfaceA) (tns ns name : Text) (t : TyA) (ht : tyWfA t = true) (v : Val)
    (hok : okOneA cfg.soft t v = true) (hfit : fitsV facts08 v = true) :
    ∃ e, encodeA facts08 tns ns name t v = [e] ∧ decodeA facts08 factsXml factsAttr cfg I t e = .ok (normOneA t v) :=
  Xml.xml_roundtrip_attrs (rtCtxA cfg) I tns ns name t ht v hok hfit

/-- reading the child elements leaves attribute and data members alone (the removed child-attribute loop
    assigned a child's attributes to the parent's members) -/
theorem children_never_set_modifier_members (cfg : Cfg) (I : IfaceA) (fields : List (Text × MKind × TyA)) (k : Text)
    (kind : MKind) (t : TyA) (hk : lookupA fields k = some (kind, t)) (hne : kind ≠ .element)
    (cs : List Node) (st st' : List (Text × Val))
    (h : childLoopA facts08 factsXml factsAttr cfg I fields cs st = .ok st') : stGet st' k = stGet st k :=
  childLoopA_keeps facts08 factsXml factsAttr (by decide) cfg I fields k kind t hk hne cs st st' h

/-- the element's attributes never set an element or data member -/
theorem attributes_never_set_other_members (cfg : Cfg) (fields : List (Text × MKind × TyA)) (k : Text)
    (kind : MKind) (t : TyA) (hk : lookupA fields k = some (kind, t)) (hne : kind ≠ .attribute)
    (as : List (Text × Text)) (st st' : List (Text × Val))
    (h : attrPass facts08 factsAttr cfg fields as st = .ok st') : stGet st' k = stGet st k :=
  attrPass_keeps facts08 factsAttr cfg fields k kind t hk hne as st st' h

/-- schema-independent, writing: whatever the values, the element written for an object has child elements
    named after element members only — never after an attribute or data member — and attributes named after
    attribute members only (or the `xsi:nil` marker) -/
theorem attribute_member_never_child_element (tns ns name cname cns : Text) (cb : Option Text)
    (fields : List (Text × MKind × TyA)) (o : Occ) (hnd : namesNodupA fields = true) (cls : Text) (vs : List (Text × Val)) :
    ∃ attrs text children,
      encodeA facts08 tns ns name (.obj cname cns cb fields o) (.obj cls vs) = [.elem ns name attrs text children] ∧
      (∀ c ∈ children, c.name ∈ namesOfKind .element fields ∧ c.name ∉ namesOfKind .attribute fields ∧
        c.name ∉ namesOfKind .data fields) ∧
      (∀ a ∈ attrs, a.1 = xsiNilKey ∨ (a.1 ∈ namesOfKind .attribute fields ∧ a.1 ∉ namesOfKind .element fields ∧
        a.1 ∉ namesOfKind .data fields)) :=
  toParentA_kinds facts08 tns ns name cname cns cb fields o hnd cls vs

/-- `xsi:nil` and attributes: a nil element is None whatever attributes, text and children it carries -/
theorem nil_element_with_attributes (cfg : Cfg) (I : IfaceA) (t : TyA) (ns name : Text) (attrs : List (Text × Text))
    (text : Option Text) (children : List Node) (hnil : isNil factsXml attrs = true) :
    decodeA facts08 factsXml factsAttr cfg I t (.elem ns name attrs text children) =
      (if cfg.soft && !t.occ.nillable then .fault else .ok .none) :=
  nil_with_attributes facts08 factsXml factsAttr cfg I t ns name attrs text children hnil

/-- on the element-only universe the decoder with member kinds is the decoder of Props/C01.lean … -/
theorem attrs_decode_is_decode (cfg : Cfg) (I : Iface) (t : Ty) (x : Node) :
    decodeA facts08 factsXml factsAttr cfg (IfaceA.ofIface I) (TyA.ofTy t) x = decode facts08 factsXml cfg I t x :=
  decodeA_ofTy facts08 factsXml factsAttr (by decide) cfg I t x

/-- … and the encoder the (non-polymorphic) encoder -/
theorem attrs_encode_is_encode (cfg : Cfg) (hp : cfg.polymorphic = false) (I : Iface) (ns name : Text) (t : Ty) (v : Val) :
    encodeA facts08 I.tns ns name (TyA.ofTy t) v = encode facts08 cfg I ns name t v :=
  encodeA_ofTy facts08 cfg hp I ns name t v

/-! ### non-vacuity: a class with two attributes (one required) and a nested object of the same class; a
    simple-content class -/

def exB : TyA := .obj "B".toList "urn:x".toList none
  [("id".toList, .attribute, .prim (.integer .i32 {}) { minOccurs := 1 }),
   ("lang".toList, .attribute, .prim (.unicode 0 none none []) {}),
   ("kid".toList, .element, .obj "K".toList "urn:x".toList none
      [("id".toList, .attribute, .prim (.integer .i32 {}) {})] {})] {}
def exV : Val := .obj "B".toList [("id".toList, .int 7), ("lang".toList, .none),
  ("kid".toList, .obj "K".toList [("id".toList, .int 9)])]
def exS : TyA := .obj "S".toList "urn:x".toList none
  [("unit".toList, .attribute, .prim (.unicode 0 none none []) {}),
   ("value".toList, .data, .prim (.integer .i32 {}) {})] {}

example : tyWfA exB = true := by decide
example : tyWfA exS = true := by decide
example : okOneA true exB exV = true := by decide
example : okOneA true exS (.obj "S".toList [("unit".toList, .str "kg".toList), ("value".toList, .int 5)]) = true := by decide

/-- string-typed variant (integer literals do not reduce by `rfl`) -/
def exB2 : TyA := .obj "B".toList "urn:x".toList none
  [("id".toList, .attribute, .prim (.unicode 0 none none []) { minOccurs := 1 }),
   ("lang".toList, .attribute, .prim (.unicode 0 none none []) {}),
   ("kid".toList, .element, .obj "K".toList "urn:x".toList none
      [("id".toList, .attribute, .prim (.unicode 0 none none []) {})] {})] {}
def exV2 : Val := .obj "B".toList [("id".toList, .str "7".toList), ("lang".toList, .none),
  ("kid".toList, .obj "K".toList [("id".toList, .str "9".toList)])]
def exDoc : Node := .elem "urn:x".toList "b".toList [("id".toList, "7".toList)] none
  [.elem "urn:x".toList "kid".toList [("id".toList, "9".toList)] none []]
/-- only the nested element carries `id` -/
def exDocNested : Node := .elem "urn:x".toList "b".toList [] none
  [.elem "urn:x".toList "kid".toList [("id".toList, "9".toList)] none []]

example : tyWfA exB2 = true := by decide
example : okOneA true exB2 exV2 = true := by decide
example : encodeA facts08 "urn:x".toList "urn:x".toList "b".toList exB2 exV2 = [exDoc] := by
  simp [encodeA, toParentA, membersA, exB2, exV2, exDoc, attrOne, leafToText, TyA.occ, Occ.repeated]
example : decodeA facts08 factsXml factsAttr {} ⟨[], [], []⟩ exB2 exDoc = .ok exV2 := by rfl
/-- the C07-noted defect on the repaired code: the outer object's `id` stays None -/
example : decodeA facts08 factsXml factsAttr {} ⟨[], [], []⟩ exB2 exDocNested =
    .ok (.obj "B".toList [("id".toList, .none), ("lang".toList, .none),
      ("kid".toList, .obj "K".toList [("id".toList, .str "9".toList)])]) := by rfl
/-- and under soft validation the document is refused: the required attribute is missing -/
example : decodeA facts08 factsXml factsAttr { validator := .soft } ⟨[], [], []⟩ exB2 exDocNested = .fault := by rfl
example : decodeA facts08 factsXml factsAttr { validator := .soft } ⟨[], [], []⟩ exB2 exDoc = .ok exV2 := by rfl

end SpyneModel.Props.C01attrs
