/- Line-protocol driver for the C12 model (concurrency: lazy WSDL, shared caches, validator). -/
import Driver.Util
import SpyneModel.ConcSys
import SpyneModel.Generated.Facts12
open Lean SpyneModel SpyneModel.Conc Driver

def F : Facts12 := SpyneModel.Generated.facts12

/-! ### decoding -/

def regOf (s : String) : Reg := if s == "w" then .w else .t

def instrOf (s : String) : Instr :=
  match s.splitOn " " with
  | ["loadCache", r] => .loadCache (regOf r)
  | ["loadPub", r] => .loadPub (regOf r)
  | ["storeCache", r] => .storeCache (regOf r)
  | ["mov", d, r] => .mov (regOf d) (regOf r)
  | ["jmpIfSome", r, t] => .jmpIfSome (regOf r) t.toNat!
  | ["jmpIfNone", r, t] => .jmpIfNone (regOf r) t.toNat!
  | ["jmp", t] => .jmp t.toNat!
  | ["acquire"] => .acquire
  | ["release"] => .release
  | ["buildBegin"] => .buildBegin
  | ["buildPorts"] => .buildPorts
  | ["buildPublish"] => .buildPublish
  | ["respond", r] => .respond (regOf r)
  | ["tryEnter", h] => .tryEnter h.toNat!
  | ["tryLeave"] => .tryLeave
  | ["respondErr"] => .respondErr
  | ["reraise"] => .reraise
  | _ => .opaque

def regStr : Reg → String | .w => "w" | .t => "t"

def instrStr : Instr → String
  | .loadCache r => s!"loadCache {regStr r}"
  | .loadPub r => s!"loadPub {regStr r}"
  | .storeCache r => s!"storeCache {regStr r}"
  | .mov d r => s!"mov {regStr d} {regStr r}"
  | .jmpIfSome r t => s!"jmpIfSome {regStr r} {t}"
  | .jmpIfNone r t => s!"jmpIfNone {regStr r} {t}"
  | .jmp t => s!"jmp {t}"
  | .acquire => "acquire" | .release => "release"
  | .buildBegin => "buildBegin" | .buildPorts => "buildPorts" | .buildPublish => "buildPublish"
  | .respond r => s!"respond {regStr r}"
  | .tryEnter h => s!"tryEnter {h}"
  | .tryLeave => "tryLeave"
  | .respondErr => "respondErr"
  | .reraise => "reraise"
  | .opaque => "opaque"

/-- "facts" (default) | "expected" | "pinned" | explicit list of instruction strings -/
def progOf (j : Json) : Prog :=
  match j.getObjVal? "prog" with
  | .ok (.str "expected") => expectedSkeleton
  | .ok (.str "pinned") => pinnedSkeleton
  | .ok (.arr a) => a.toList.map (fun x => instrOf (x.getStr?.toOption.getD ""))
  | _ => F.wsdlSkeleton

def resetsOf (j : Json) : Bool :=
  match j.getObjVal? "resets" with
  | .ok (.bool b) => b
  | _ => F.builderResets

/-- `"fails": ["early", "ok", "late", …]` = outcome of the k-th build (ok beyond the list) -/
def failsOf (j : Json) : Nat → Fail :=
  let l := (getArr j "fails").toList.map (fun x => match x.getStr?.toOption.getD "" with
    | "early" => Fail.early | "late" => Fail.late | _ => Fail.ok)
  fun k => l.getD k .ok

def cfgOf (j : Json) : Cfg := { resets := resetsOf j, fail := failsOf j }

def natList (j : Json) (k : String) : List Nat :=
  (getArr j k).toList.map (fun x => x.getNat?.toOption.getD 0)

def cacheOf (s : String) : CacheId :=
  match s with
  | "attr" => .attr | "sort" => .sort | "memo" => .memo | "bind" => .bind | _ => .cdict

def cacheStr : CacheId → String
  | .attr => "attr" | .sort => "sort" | .memo => "memo" | .cdict => "cdict" | .bind => "bind"

def keyOf (a : Array Json) : Key :=
  { c := cacheOf ((a[1]?.bind (·.getStr?.toOption)).getD ""),
    id := (a[2]?.bind (·.getNat?.toOption)).getD 0,
    pa := (a[3]?.bind (·.getBool?.toOption)).getD false }

def ropOf (j : Json) : ROp :=
  match j with
  | .arr a =>
    match (a[0]?.bind (·.getStr?.toOption)).getD "" with
    | "probe" => .probe (keyOf a)
    | "publish" => .publish (keyOf a)
    | "complete" => .complete (keyOf a)
    | "validate" => .validate
    | "readErr" => .readErr
    | "park" => .park ((a[1]?.bind (·.getNat?.toOption)).getD 0)
    | "setCtx" => .setCtx ((a[1]?.bind (·.getNat?.toOption)).getD 0)
    | "getCtx" => .getCtx ((a[1]?.bind (·.getNat?.toOption)).getD 0)
    | _ => .unpark ((a[1]?.bind (·.getNat?.toOption)).getD 0)
  | _ => .validate

def orderOf (s : String) (dflt : PublishOrder) : PublishOrder :=
  match s with
  | "afterInit" => .afterInit | "beforeInit" => .beforeInit | _ => dflt

/-- the regenerated facts, optionally overridden field by field (`"facts": {"attr": "beforeInit", …}`) -/
def rfactsOf (j : Json) : RFacts :=
  let o := (j.getObjVal? "facts").toOption.getD (Json.mkObj [])
  let base := F.rfacts
  { order := fun c => orderOf (getStr o (cacheStr c)) (base.order c),
    errRead := match getStr o "errRead" with
      | "underLock" => .underLock | "racy" => .racy | _ => base.errRead,
    ctxShared := match o.getObjVal? "ctxShared" with
      | .ok (.bool b) => fun _ => b
      | _ => base.ctxShared,
    rebindRaises := match o.getObjVal? "rebindRaises" with
      | .ok (.bool b) => b
      | _ => base.rebindRaises }

/-! ### encoding -/

def docJson : Option Doc → Json
  | none => Json.null
  | some .whole => Json.str "whole"
  | some .truncated => Json.str "truncated"

def ansJson : Ans → Json
  | .doc d => docJson d
  | .error => Json.str "error"
  | .crash => Json.str "crash"

def optNatJson : Option Nat → Json
  | none => Json.null
  | some n => Json.num n

def valStr : Val → String | .full => "full" | .half => "half"

def obsJson : Obs → Json
  | .val k v => Json.arr #[Json.str "val", Json.str (cacheStr k.c), Json.num k.id, Json.str (valStr v)]
  | .err e => Json.arr #[Json.str "err", optNatJson e]
  | .scr x => Json.arr #[Json.str "scr", optNatJson x]
  | .exc => Json.arr #[Json.str "exc"]

def respJson : Option Resp → Json
  | none => Json.null
  | some (.doc a) => Json.mkObj [("doc", ansJson a)]
  | some (.body o) => Json.mkObj [("body", Json.arr (o.map obsJson).toArray)]

/-! ### WSDL model: macro schedule with a record of what every entry did -/

structure WRec where
  tid : Nat
  pc : Nat          -- the shared instruction the entry was about to execute
  skipped : Bool    -- finished or blocked on the lock

def wMacro (rs : Cfg) (p : Prog) : State → List Nat → List WRec → State × List WRec
  | s, [], acc => (s, acc.reverse)
  | s, i :: rest, acc =>
    let s1 := localRun rs p p.length s i
    let rec_ : WRec := { tid := i, pc := (s1.loc i).pc, skipped := stuck p s1 i }
    wMacro rs p (macroStep rs p s i) rest (rec_ :: acc)

def wStateJson (p : Prog) (s : State) (n : Nat) : List (String × Json) :=
  [ ("builds", Json.num s.builds), ("succ", Json.num s.succ), ("cache", docJson s.cache), ("pub", docJson s.pub),
    ("lock", optNatJson s.lock),
    ("threads", Json.arr ((List.range n).map (fun i =>
      Json.mkObj [("pc", Json.num (s.loc i).pc),
                  ("done", Json.bool (s.loc i).resp.isSome),
                  ("resp", match (s.loc i).resp with | none => Json.str "none" | some d => ansJson d),
                  ("stuck", Json.bool (stuck p s i))])).toArray) ]

def opWRun (j : Json) : Json :=
  let p := progOf j
  let rs := cfgOf j
  let n := getNat j "n"
  let sched := natList j "sched"
  if getBool j "micro" then
    let s := run rs p init sched
    Json.mkObj (wStateJson p s n)
  else
    let (s, recs) := wMacro rs p init sched []
    Json.mkObj (wStateJson p s n ++
      [("steps", Json.arr (recs.map (fun r =>
          Json.arr #[Json.num r.tid, Json.num r.pc, Json.bool r.skipped])).toArray)])

/-! ### request-thread model -/

def localOf (j : Json) : RLocal :=
  mkReq (getNat j "arg") (getBool j "invalid") ((getArr j "prog").toList.map ropOf)

def opRRun (j : Json) : Json :=
  let Fr := rfactsOf j
  let reqs := (getArr j "threads").toList.map localOf
  let sched := natList j "sched"
  let s := rrun Fr (rinit reqs) sched
  let keys : List Key := (reqs.flatMap (fun l => l.todo.filterMap (fun op =>
    match op with | .probe k | .publish k | .complete k => some k | _ => none))).eraseDups
  Json.mkObj
    [ ("threads", Json.arr ((List.range reqs.length).map (fun i =>
        let l := s.loc i
        Json.mkObj [("finished", Json.bool l.finished),
                    ("obs", Json.arr (l.obs.map obsJson).toArray),
                    ("hits", Json.arr (l.hits.map Json.bool).toArray),
                    ("solo", Json.arr ((soloResponse ((rinit reqs).loc i)).map obsJson).toArray)])).toArray),
      ("table", Json.arr (keys.filterMap (fun k =>
        (s.table k).map (fun v => Json.arr #[Json.str (cacheStr k.c), Json.num k.id, Json.str (valStr v)]))).toArray),
      ("errlog", optNatJson s.errlog) ]

/-! ### whole system: the schedule is at macro granularity for `?wsdl` threads -/

def reqOf (j : Json) : Req :=
  if getStr j "kind" == "wsdl" then .wsdl
  else .rpc (getNat j "arg") (getBool j "invalid") ((getArr j "prog").toList.map ropOf)

def sysLocalRun (O : Nat → Fail) (p : Prog) : Nat → SysState → Nat → SysState
  | 0, s, _ => s
  | fuel + 1, s, i => if nextIsLocal p s.w i then sysLocalRun O p fuel (sysStep F O s i) i else s

def sysMacro (O : Nat → Fail) (s : SysState) (i : Nat) : SysState :=
  if s.isWsdl i then
    let p := F.wsdlSkeleton
    sysLocalRun O p p.length (sysStep F O (sysLocalRun O p p.length s i) i) i
  else sysStep F O s i

def sysMacroRec (O : Nat → Fail) : SysState → List Nat → List WRec → SysState × List WRec
  | s, [], acc => (s, acc.reverse)
  | s, i :: rest, acc =>
    if s.isWsdl i then
      let p := F.wsdlSkeleton
      let s1 := sysLocalRun O p p.length s i
      let r : WRec := { tid := i, pc := (s1.w.loc i).pc, skipped := stuck p s1.w i }
      sysMacroRec O (sysMacro O s i) rest (r :: acc)
    else sysMacroRec O (sysMacro O s i) rest acc

def opSysRun (j : Json) : Json :=
  let reqs := (getArr j "reqs").toList.map reqOf
  let sched := natList j "sched"
  let (s, recs) := sysMacroRec (failsOf j) (sysInit reqs) sched []
  Json.mkObj
    [ ("builds", Json.num s.w.builds), ("succ", Json.num s.w.succ), ("cache", docJson s.w.cache),
      ("lock", optNatJson s.w.lock),
      ("stuck", Json.arr ((List.range reqs.length).map (fun i =>
          Json.bool (s.isWsdl i && (s.w.loc i).resp.isNone && stuck F.wsdlSkeleton s.w i))).toArray),
      ("wsteps", Json.arr (recs.map (fun r =>
          Json.arr #[Json.num r.tid, Json.num r.pc, Json.bool r.skipped])).toArray),
      ("responses", Json.arr ((List.range reqs.length).map (fun i => respJson (s.response i))).toArray),
      ("alone", Json.arr (reqs.map (fun q => respJson (alone F q))).toArray),
      ("hits", Json.arr ((List.range reqs.length).map (fun i =>
          Json.arr ((s.r.loc i).hits.map Json.bool).toArray)).toArray) ]

def opFacts (_ : Json) : Json :=
  Json.mkObj
    [ ("skeleton", Json.arr (F.wsdlSkeleton.map (fun i => Json.str (instrStr i))).toArray),
      ("shared", Json.arr (F.wsdlSkeleton.map (fun i => Json.bool i.shared)).toArray),
      ("isExpected", Json.bool (F.wsdlSkeleton == expectedSkeleton)),
      ("isPinned", Json.bool (F.wsdlSkeleton == pinnedSkeleton)),
      ("good", Json.bool (decide F.Good)) ]

def step (j : Json) : Json :=
  match getStr j "op" with
  | "w.run" => opWRun j
  | "r.run" => opRRun j
  | "sys.run" => opSysRun j
  | "facts" => opFacts j
  | op => Json.mkObj [("driver_error", Json.str s!"unknown op {op}")]

def main : IO Unit := Driver.run step
