/- Line-protocol driver for the C18 model (NullServer vs. the wire). -/
import Driver.Util
import SpyneModel.Null
import SpyneModel.NullSeq
import SpyneModel.NullExt
import SpyneModel.Generated.Facts18
open Lean SpyneModel.Null Driver

def F := SpyneModel.Generated.facts18

partial def valOf (j : Json) : Val :=
  match j with
  | .null => .none
  | .bool b => .bool b
  | _ =>
    match j.getObjVal? "i" with
    | .ok (.str s) => .int (s.toInt?.getD 0)
    | .ok (.num n) => .int n.mantissa
    | _ =>
    match j.getObjVal? "s" with
    | .ok (.str s) => .str s
    | _ =>
    match j.getObjVal? "b" with
    | .ok (.bool b) => .bool b
    | _ =>
    match j.getObjVal? "l" with
    | .ok (.arr a) => .seq (a.toList.map valOf)
    | _ =>
    match j.getObjVal? "g" with
    | .ok (.arr a) => .gen (a.toList.map valOf)
    | _ =>
    match j.getObjVal? "ig" with
    | .ok v => .ignored (valOf v)
    | _ =>
    match j.getObjVal? "o" with
    | .ok (.arr #[.str cls, .arr fs]) =>
      .obj cls (fs.toList.map fun f => match f with
        | .arr #[.str k, v] => (k, valOf v)
        | _ => ("?", .none))
    | _ => .none

partial def valJson : Val → Json
  | .none => .null
  | .int i => Json.mkObj [("i", Json.str (toString i))]
  | .str s => Json.mkObj [("s", Json.str s)]
  | .bool b => Json.mkObj [("b", Json.bool b)]
  | .seq vs => Json.mkObj [("l", Json.arr (vs.map valJson).toArray)]
  | .gen vs => Json.mkObj [("g", Json.arr (vs.map valJson).toArray)]
  | .ignored v => Json.mkObj [("ig", valJson v)]
  | .obj cls fs => Json.mkObj [("o", Json.arr #[Json.str cls,
      Json.arr (fs.map fun (k, v) => Json.arr #[Json.str k, valJson v]).toArray])]

def resJson {α} (f : α → Json) : Res α → Json
  | .ok a => Json.mkObj [("ok", f a)]
  | .fault c => Json.mkObj [("fault", Json.str c.code),
      ("string", match c.str with | some t => Json.str t | none => Json.null),
      ("actor", Json.str c.actor), ("detail", valJson c.detail)]
  | .exc e => Json.mkObj [("exc", Json.str e)]

def strList (j : Json) : List String :=
  match j with
  | .arr a => a.toList.map fun x => match x with | .str s => s | _ => "?"
  | _ => []

def sigOf (j : Json) : Sig :=
  let style := match getStr j "style" with
    | "bare" => StyleStr.bare | "out_bare" => .outBare | _ => .wrapped
  let bareArg : Option (String × List String) := match j.getObjVal? "bareArg" with
    | .ok (.arr #[.str cls, fs]) => some (cls, strList fs)
    | _ => none
  let returns : Returns := match j.getObjVal? "returns" with
    | .ok r =>
      (match r.getObjVal? "many" with
       | .ok (.num n) => .many n.mantissa.toNat
       | _ =>
         (match r.getObjVal? "one" with
          | .ok (.arr #[.str cls, fs]) => .one (.complex cls (strList fs))
          | .ok (.str _) => .one .array
          | .ok _ => .one .prim
          | _ => .none))
    | _ => .none
  ⟨style, strList ((j.getObjVal? "params").toOption.getD (.arr #[])), bareArg, returns⟩

def nth (xs : List Val) (i : Nat) : Option Val := xs[i]?

def optStr' (j : Json) (k : String) : Option String :=
  match j.getObjVal? k with | .ok (.str s) => some s | _ => none

/-- the scripted user function (the same script is interpreted by harness/c18.py) -/
def implOf (j : Json) : List Val → Result :=
  match getStr j "k" with
  | "const" => fun _ => .value (valOf ((j.getObjVal? "v").toOption.getD .null))
  | "ignored" => fun _ => .value (.ignored (valOf ((j.getObjVal? "v").toOption.getD .null)))
  | "gen" => fun _ => .value (.gen ((getArr j "v").toList.map valOf))
  | "fault" => fun _ => .fault (Flt.mk (getStr j "code") (optStr' j "string") (getStr j "actor")
      (valOf ((j.getObjVal? "detail").toOption.getD .null)))
  | "error" => fun _ => .error
  | "pick" =>
    let idx := (getArr j "idx").toList.map fun x => (x.getNat?.toOption.getD 0)
    let many := getBool j "many"
    fun recv =>
      let picked := idx.map (nth recv)
      if picked.all Option.isSome then
        let vs := picked.filterMap id
        if many then .value (.seq vs) else (match vs with | v :: _ => .value v | [] => .error)
      else .error
  | "field" =>
    let f := getStr j "f"
    fun recv => match recv with
      | .obj _ fs :: _ => .value ((lookup f fs).getD .none)
      | _ => .error
  | _ => fun _ => .error

def memberOf (j : Json) : Option Member :=
  match j.getObjVal? "member" with
  | .ok m =>
    (match m.getObjVal? "cls" with
     | .ok (.str cls) => some ⟨cls, strList ((m.getObjVal? "fields").toOption.getD (.arr #[])), getBool m "default_on_null",
        (match m.getObjVal? "when" with | .ok (.bool b) => b | _ => true)⟩
     | _ => none)
  | _ => none

/-- the scripted body, turned into a member method when the query says so -/
def progOf (j : Json) : List Val → Result :=
  memberImpl (memberOf j) (implOf ((j.getObjVal? "script").toOption.getD .null))

/-- what the user function itself receives: for a member method the respawned instance first -/
def fnRecv (j : Json) (r : Res (List Val)) : Res (List Val) :=
  match memberOf j with
  | none => r
  | some m => (r.bind (respawn m)).bind fun a => if m.whenOk then .ok a else .fault "Client.InvalidInput"

def optStr (j : Json) (k : String) : Option String :=
  match j.getObjVal? k with | .ok (.str s) => some s | _ => none

def styleName : StyleStr → String
  | .wrapped => "wrapped" | .bare => "bare" | .outBare => "out_bare"

def kwOf (j : Json) (k : String) : List (String × Val) :=
  (getArr j k).toList.map fun p => match p with
    | .arr #[.str key, v] => (key, valOf v)
    | _ => ("?", .none)

def protoOf (s : String) : ProtoCfg :=
  match s with
  | "xml" => F.xml | "soap" => F.soap | _ => F.json

def bodyStyleName : BodyStyle → String
  | .wrapped => "WRAPPED" | .empty => "EMPTY" | .bare => "BARE" | .outBare => "OUT_BARE"
  | .emptyOutBare => "EMPTY_OUT_BARE"

def auxsOf (j : Json) : List Aux :=
  (getArr j "auxs").toList.map fun a =>
    (sigOf ((a.getObjVal? "sig").toOption.getD .null), implOf ((a.getObjVal? "script").toOption.getD .null))

def recvJson (r : Res (List Val)) : Json := resJson (fun xs => Json.arr (xs.map valJson).toArray) r

def callsOf (j : Json) : List Call :=
  (getArr j "calls").toList.map fun c =>
    ((getArr c "pos").toList.map valOf, kwOf c "kw")

/-- results, received arguments and auxiliary runs of a call history on one kept object -/
def seqSteps (fr : Res (List Val) → Res (List Val)) (s : Sig) (impl : List Val → Result) (auxs : List Aux) :
    Option (List Val) → List Call → List Json
  | _, [] => []
  | kept, c :: cs =>
    Json.mkObj [("recv", recvJson (fr (nullRecvFrom F s kept c.1 c.2))),
                ("out", resJson valJson (nullCallFrom F s impl auxs kept c.1 c.2)),
                ("aux", Json.arr ((nullAuxRecv F s impl auxs kept c.1 c.2).map recvJson).toArray)]
      :: seqSteps fr s impl auxs (slotsAfter F s kept c.1 c.2) cs

def step (j : Json) : Json :=
  let s := sigOf ((j.getObjVal? "sig").toOption.getD .null)
  match getStr j "op" with
  | "decorate" =>
    if s.decorates then
      Json.mkObj [("ok", Json.mkObj [
        ("body_style", Json.str (bodyStyleName s.bodyStyle)),
        ("in_keys", match s.inKeys with | some ks => Json.arr (ks.map Json.str).toArray | none => .null),
        ("is_out_bare", Json.bool (F.isOutBare s.bodyStyle)),
        ("out_len", if s.style = .wrapped then Json.num s.outLen else .null)])]
    else Json.mkObj [("error", Json.str "decorator")]
  | "null.call" =>
    let impl := progOf j
    let pos := (getArr j "pos").toList.map valOf
    let kw := kwOf j "kw"
    Json.mkObj [("recv", resJson (fun xs => Json.arr (xs.map valJson).toArray) (fnRecv j (nullRecv F s pos kw))),
                ("out", resJson valJson (nullCall F s impl pos kw))]
  | "wire.call" =>
    let impl := progOf j
    let pos := (getArr j "pos").toList.map valOf
    let kw := kwOf j "kw"
    let P := protoOf (getStr j "proto")
    Json.mkObj [("recv", resJson (fun xs => Json.arr (xs.map valJson).toArray) (fnRecv j (wireRecvOf P id s pos kw))),
                ("out", resJson valJson (wireCall F P id s impl pos kw))]
  | "null.ostr" =>
    let impl := progOf j
    let pos := (getArr j "pos").toList.map valOf
    let kw := kwOf j "kw"
    Json.mkObj [("out", resJson valJson (nullOstr F (protoOf (getStr j "proto")) id s impl pos kw))]
  | "style" =>
    (match validateBodyStyle (optStr j "body_style") (optStr j "soap_body_style") with
     | some st => Json.mkObj [("ok", Json.str (styleName st))]
     | none => Json.mkObj [("error", Json.str "ValueError")])
  | "null.seq" =>
    let impl := progOf j
    Json.mkObj [("steps", Json.arr (seqSteps (fnRecv j) s impl (auxsOf j) none (callsOf j)).toArray)]
  | "wire.aux" =>
    let impl := progOf j
    let pos := (getArr j "pos").toList.map valOf
    let kw := kwOf j "kw"
    let P := protoOf (getStr j "proto")
    let auxs := auxsOf j
    Json.mkObj [("recv", recvJson (fnRecv j (wireRecvOf P id s pos kw))),
                ("out", resJson valJson (wireCallAux F P id s impl auxs pos kw)),
                ("aux", Json.arr ((wireAuxRecv F P id s impl auxs pos kw).map recvJson).toArray)]
  | op => Json.mkObj [("driver_error", Json.str s!"unknown op {op}")]

def main : IO Unit := Driver.run step
