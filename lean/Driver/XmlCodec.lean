/- JSON ⇄ (Ty, Val, Node, Iface, Cfg) codecs and the operation table of the XML codec block. -/
import Driver.Util
import SpyneModel.XmlSpec
import SpyneModel.Soap
import SpyneModel.Client
import SpyneModel.XmlAttr
import SpyneModel.XmlAttrSpec
import SpyneModel.XmlSpelling
import SpyneModel.Generated.Facts08
import SpyneModel.Generated.Facts01
open Lean SpyneModel SpyneModel.Xml Driver

namespace XmlCodec

def F := SpyneModel.Generated.facts08
def X := SpyneModel.Generated.factsXml
def S := SpyneModel.Generated.factsSoap
def CF := SpyneModel.Generated.factsClient
def AF := SpyneModel.Generated.factsAttr
def DF := SpyneModel.Generated.factsDoc

def getObj (j : Json) (k : String) : Json :=
  match j.getObjVal? k with | .ok v => v | .error _ => Json.null

def strText (j : Json) (k : String) : Text := (getStr j k).toList

def cpsOf (j : Json) : Text :=
  match j with
  | .arr a => a.toList.map (fun c => match c.getNat? with | .ok n => Char.ofNat n | .error _ => '?')
  | _ => []

def optBig (j : Json) (k : String) : Option Int :=
  match j.getObjVal? k with
  | .ok (.str s) => s.toInt?
  | .ok (.num n) => some n.mantissa
  | _ => none

def optNat (j : Json) (k : String) : Option Nat :=
  match j.getObjVal? k with
  | .ok (.num n) => some n.mantissa.toNat
  | _ => none

def kindOf (s : String) : IntKind :=
  match s with
  | "i8" => .i8 | "i16" => .i16 | "i32" => .i32 | "i64" => .i64
  | "u8" => .u8 | "u16" => .u16 | "u32" => .u32 | "u64" => .u64
  | _ => .unbounded

def occOf (j : Json) : Occ :=
  { nillable := match j.getObjValAs? Bool "nillable" with | .ok b => b | .error _ => true,
    minOccurs := getNat j "min",
    maxOccurs := match j.getObjVal? "max" with
      | .ok (.num n) => some n.mantissa.toNat
      | .ok .null => none
      | _ => some 1 }

def patOf (j : Json) : Option Pattern :=
  match j with
  | .null => none
  | p => some { ranges := (getArr p "ranges").toList.map (fun r =>
                  match r with
                  | .arr #[a, b] => (Char.ofNat (a.getNat?.toOption.getD 0), Char.ofNat (b.getNat?.toOption.getD 0))
                  | _ => ('a', 'a')),
                min := getNat p "min", max := optNat p "max" }

def primOf (j : Json) : PrimTy :=
  match getStr j "t" with
  | "int" => .integer (kindOf (getStr j "kind"))
      { ge := optBig j "ge", gt := optBig j "gt", le := optBig j "le", lt := optBig j "lt" }
  | "bool" => .boolean
  | "str" => .unicode (getNat j "min") (optNat j "max") (patOf (getObj j "pat"))
      ((getArr j "values").toList.map cpsOf)
  | "date" => .date
  | "time" => .time
  | "dt" => .dateTime
  | "dur" => .duration
  | "bytes" => .bytes (match getStr j "enc" with | "hex" => .hex | "urlsafe" => .urlsafe | _ => .base64)
  | "enum" => .enum ((getArr j "names").toList.map (fun n => match n with | .str s => s.toList | o => cpsOf o))
  | _ => .boolean

partial def tyOf (j : Json) : Ty :=
  match getStr j "k" with
  | "prim" => .prim (primOf (getObj j "p")) (occOf (getObj j "o"))
  | "obj" =>
    .obj (strText j "name") (strText j "ns")
      (match j.getObjVal? "base" with | .ok (.str s) => some s.toList | _ => none)
      ((getArr j "fields").toList.map (fun f =>
        match f with
        | .arr #[.str k, t] => (k.toList, tyOf t)
        | _ => ([], .prim .boolean {})))
      (occOf (getObj j "o"))
  | "arr" => .arr (strText j "member") (tyOf (getObj j "elem")) (occOf (getObj j "o"))
  | _ => .prim .boolean {}

def kindOfM (j : Json) : MKind :=
  match j with
  | .str "attribute" => .attribute
  | .str "data" => .data
  | _ => .element

partial def tyAOf (j : Json) : TyA :=
  match getStr j "k" with
  | "prim" => .prim (primOf (getObj j "p")) (occOf (getObj j "o"))
  | "obj" =>
    .obj (strText j "name") (strText j "ns")
      (match j.getObjVal? "base" with | .ok (.str s) => some s.toList | _ => none)
      ((getArr j "fields").toList.map (fun f =>
        match f with
        | .arr #[.str k, t] => (k.toList, kindOfM (getObj t "mk"), tyAOf t)
        | _ => ([], MKind.element, .prim .boolean {})))
      (occOf (getObj j "o"))
  | "arr" => .arr (strText j "member") (tyAOf (getObj j "elem")) (occOf (getObj j "o"))
  | _ => .prim .boolean {}

def ifaceAOf (j : Json) : IfaceA :=
  { classes := (getArr j "classes").toList.map (fun c =>
      { name := strText c "name", ns := strText c "ns",
        base := (match c.getObjVal? "base" with | .ok (.str s) => some s.toList | _ => none),
        fields := (getArr c "fields").toList.map (fun f =>
          match f with
          | .arr #[.str k, t] => (k.toList, kindOfM (getObj t "mk"), tyAOf t)
          | _ => ([], MKind.element, .prim .boolean {})) }),
    others := (getArr j "others").toList.map (fun o =>
      match o with
      | .arr #[.str k, t] => (k.toList, tyAOf t)
      | _ => ([], .prim .boolean {})),
    tns := strText j "tns" }

def natAt (a : Array Json) (i : Nat) : Nat := match a[i]? with | some j => j.getNat?.toOption.getD 0 | none => 0

partial def valOf (j : Json) : Val :=
  match j with
  | .null => .none
  | _ =>
    match j.getObjVal? "i" with
    | .ok (.str s) => .int (s.toInt?.getD 0)
    | .ok (.num n) => .int n.mantissa
    | _ =>
    match j.getObjVal? "b" with
    | .ok (.bool b) => .bool b
    | _ =>
    match j.getObjVal? "s" with
    | .ok a => .str (cpsOf a)
    | _ =>
    match j.getObjVal? "date" with
    | .ok (.arr a) => .date ⟨natAt a 0, natAt a 1, natAt a 2⟩
    | _ =>
    match j.getObjVal? "time" with
    | .ok (.arr a) => .time ⟨natAt a 0, natAt a 1, natAt a 2, natAt a 3⟩
    | _ =>
    match j.getObjVal? "dt" with
    | .ok (.arr a) =>
      .dt ⟨⟨natAt a 0, natAt a 1, natAt a 2⟩, ⟨natAt a 3, natAt a 4, natAt a 5, natAt a 6⟩,
           (match (a[7]? : Option Json) with | some (Json.num n) => some n.mantissa | _ => none)⟩
    | _ =>
    match j.getObjVal? "dur" with
    | .ok (.str s) => .dur (s.toInt?.getD 0)
    | .ok (.num n) => .dur n.mantissa
    | _ =>
    match j.getObjVal? "x" with
    | .ok (.arr a) => .bytes (a.toList.map (fun c => c.getNat?.toOption.getD 0))
    | _ =>
    match j.getObjVal? "e" with
    | .ok (.str s) => .enum s.toList
    | .ok a@(.arr _) => .enum (cpsOf a)
    | _ =>
    match j.getObjVal? "o" with
    | .ok (.arr #[.str cls, .arr fs]) =>
      .obj cls.toList (fs.toList.map (fun f =>
        match f with
        | .arr #[.str k, v] => (k.toList, valOf v)
        | _ => ([], .none)))
    | _ =>
    match j.getObjVal? "l" with
    | .ok (.arr a) => .list (a.toList.map valOf)
    | _ => .none

def strJson (t : Text) : Json := Json.str (String.ofList t)
def natJ (n : Nat) : Json := (n : Json)

partial def valJson : Val → Json
  | .none => Json.null
  | .int i => Json.mkObj [("i", Json.str (toString i))]
  | .bool b => Json.mkObj [("b", Json.bool b)]
  | .str s => Json.mkObj [("s", textJson s)]
  | .date d => Json.mkObj [("date", Json.arr #[natJ d.y, natJ d.m, natJ d.d])]
  | .time t => Json.mkObj [("time", Json.arr #[natJ t.h, natJ t.mi, natJ t.s, natJ t.us])]
  | .dt x => Json.mkObj [("dt", Json.arr #[natJ x.date.y, natJ x.date.m, natJ x.date.d, natJ x.time.h,
      natJ x.time.mi, natJ x.time.s, natJ x.time.us,
      match x.tz with | none => Json.null | some m => Json.num (JsonNumber.fromInt m)])]
  | .dur us => Json.mkObj [("dur", Json.str (toString us))]
  | .bytes bs => Json.mkObj [("x", Json.arr (bs.map natJ).toArray)]
  | .enum n => Json.mkObj [("e", strJson n)]
  | .obj cls fs => Json.mkObj [("o", Json.arr #[strJson cls,
      Json.arr (fs.map (fun (k, v) => Json.arr #[strJson k, valJson v])).toArray])]
  | .list vs => Json.mkObj [("l", Json.arr (vs.map valJson).toArray)]

partial def nodeOf (j : Json) : Node :=
  .elem (strText j "ns") (strText j "n")
    ((getArr j "a").toList.map (fun a =>
      match a with
      | .arr #[.str k, v] => (k.toList, cpsOf v)
      | _ => ([], [])))
    (match j.getObjVal? "x" with | .ok a@(.arr _) => some (cpsOf a) | _ => none)
    ((getArr j "c").toList.map nodeOf)

/-- Raw JSON: {ns, n, a, items: [{t: cps} | {cd: cps} | {c: cps} | {pi: [target, cps]} | {e: raw}]} -/
partial def rawOf (j : Json) : Raw :=
  .elem (strText j "ns") (strText j "n")
    ((getArr j "a").toList.map (fun a =>
      match a with
      | .arr #[.str k, v] => (k.toList, cpsOf v)
      | _ => ([], [])))
    ((getArr j "items").toList.map (fun it =>
      match it.getObjVal? "t", it.getObjVal? "cd", it.getObjVal? "c", it.getObjVal? "pi", it.getObjVal? "e" with
      | .ok v, _, _, _, _ => RawItem.text (cpsOf v)
      | _, .ok v, _, _, _ => RawItem.cdata (cpsOf v)
      | _, _, .ok v, _, _ => RawItem.comment (cpsOf v)
      | _, _, _, .ok (.arr #[.str t, v]), _ => RawItem.pi t.toList (cpsOf v)
      | _, _, _, _, .ok e => RawItem.child (rawOf e)
      | _, _, _, _, _ => RawItem.text []))

partial def nodeJson : Node → Json
  | .elem ns n attrs text cs => Json.mkObj [
      ("ns", strJson ns), ("n", strJson n),
      ("a", Json.arr (attrs.map (fun (k, v) => Json.arr #[strJson k, textJson v])).toArray),
      ("x", match text with | none => Json.null | some t => textJson t),
      ("c", Json.arr (cs.map nodeJson).toArray)]

def ifaceOf (j : Json) : Iface :=
  { classes := (getArr j "classes").toList.map (fun c =>
      { name := strText c "name", ns := strText c "ns",
        base := (match c.getObjVal? "base" with | .ok (.str s) => some s.toList | _ => none),
        fields := (getArr c "fields").toList.map (fun f =>
          match f with
          | .arr #[.str k, t] => (k.toList, tyOf t)
          | _ => ([], .prim .boolean {})) }),
    others := (getArr j "others").toList.map (fun o =>
      match o with
      | .arr #[.str k, t] => (k.toList, tyOf t)
      | _ => ([], .prim .boolean {})),
    tns := strText j "tns" }

def cfgOf (j : Json) : Cfg :=
  { validator := match getStr j "validator" with | "soft" => .soft | "lxml" => .lxml | _ => .none,
    polymorphic := getBool j "polymorphic",
    parseXsiType := match j.getObjValAs? Bool "parseXsiType" with | .ok b => b | .error _ => true }

def outJson {α} (f : α → Json) : Outcome α → Json
  | .ok a => Json.mkObj [("ok", f a)]
  | .fault => Json.mkObj [("fault", Json.str "Client")]
  | .crash e => Json.mkObj [("crash", Json.str e)]

def soapVerOf (j : Json) : Soap.Version :=
  match getStr j "soap" with | "1.2" => .v12 | _ => .v11

def methodsOf (j : Json) : Soap.Methods :=
  (getArr j "methods").toList.map (fun m =>
    match m with
    | .arr #[.str k, t] => (k.toList, tyOf t)
    | _ => ([], .prim .boolean {}))

def styleOf (s : String) : Soap.Style :=
  match s with
  | "bare" => .bare | "out_bare" => .outBare | "empty" => .empty | "empty_out_bare" => .emptyOutBare | _ => .wrapped

def tyListOf (j : Json) : Option (List Ty) :=
  match j with
  | .arr a => some (a.toList.map tyOf)
  | _ => none

def hdrsOf (j : Json) (k : Text) : Option (List Ty) :=
  match ((getArr j "hdrs").toList.filterMap (fun e =>
    match e with
    | .arr #[.str key, cls] => if key.toList = k then some (tyListOf cls) else none
    | _ => none)) with
  | r :: _ => r
  | [] => none

def outHeaderOf (j : Json) : Soap.OutHeader :=
  let vals := (getArr j "vals").toList.map valOf
  match getStr j "kind" with
  | "single" => .single (vals.headD .none)
  | "list" => .list vals
  | "tuple" => .tuple vals
  | _ => .none

def step (j : Json) : Json :=
  let cfg := cfgOf (getObj j "cfg")
  let I := ifaceOf (getObj j "iface")
  match getStr j "op" with
  | "xml.encode" =>
    Json.mkObj [("ok", Json.arr ((encode F cfg I (strText j "ns") (strText j "name") (tyOf (getObj j "ty"))
      (valOf (getObj j "val"))).map nodeJson).toArray)]
  | "doc.view" => Json.mkObj [("ok", nodeJson (parserView DF (rawOf (getObj j "raw"))))]
  | "doc.denote" => Json.mkObj [("ok", nodeJson (denote (rawOf (getObj j "raw"))))]
  | "bytes.chunksText" =>
    let enc : BinEnc := match getStr j "enc" with | "hex" => .hex | "urlsafe" => .urlsafe | _ => .base64
    let chunks := (getArr j "chunks").toList.map (fun c => match c with
      | .arr a => a.toList.map (fun x => x.getNat?.toOption.getD 0)
      | _ => [])
    Json.mkObj [("ok", match chunksText F DF enc chunks with | some t => textJson t | none => Json.null)]
  | "xmla.encode" =>
    Json.mkObj [("ok", Json.arr ((encodeA F (strText (getObj j "iface") "tns") (strText j "ns") (strText j "name")
      (tyAOf (getObj j "ty")) (valOf (getObj j "val"))).map nodeJson).toArray)]
  | "xmla.decode" =>
    outJson valJson (decodeA F X AF cfg (ifaceAOf (getObj j "iface")) (tyAOf (getObj j "ty")) (nodeOf (getObj j "doc")))
  | "okA" => Json.mkObj [("ok", Json.bool (okOneA (getBool j "strict") (tyAOf (getObj j "ty")) (valOf (getObj j "val"))))]
  | "normA" => Json.mkObj [("ok", valJson (normOneA (tyAOf (getObj j "ty")) (valOf (getObj j "val"))))]
  | "wfA" => Json.mkObj [("ok", Json.bool (tyWfA (tyAOf (getObj j "ty"))))]
  | "xml.encodeStream" =>
    Json.mkObj [("ok", Json.arr ((encodeStream F X cfg I (strText j "ns") (strText j "name") (tyOf (getObj j "ty"))
      (valOf (getObj j "val"))).map nodeJson).toArray)]
  | "xml.decode" => outJson valJson (decode F X cfg I (tyOf (getObj j "ty")) (nodeOf (getObj j "doc")))
  | "conforms" => Json.mkObj [("ok", Json.bool (conforms (tyOf (getObj j "ty")) (valOf (getObj j "val"))))]
  | "hasTy" => Json.mkObj [("ok", Json.bool (hasTy I (tyOf (getObj j "ty")) (valOf (getObj j "val"))))]
  | "norm" => Json.mkObj [("ok", valJson (norm (tyOf (getObj j "ty")) (valOf (getObj j "val"))))]
  | "wf" => Json.mkObj [("ok", Json.bool (tyWf (tyOf (getObj j "ty"))))]
  | "ifaceWf" => Json.mkObj [("ok", Json.bool (ifaceWf I))]
  | "fits" => Json.mkObj [("ok", Json.bool (fitsV F (valOf (getObj j "val"))))]
  | "okX" => Json.mkObj [("ok", Json.bool (okX I (getBool j "poly") (getBool j "strict") (tyOf (getObj j "ty"))
      (valOf (getObj j "val"))))]
  | "normX" => Json.mkObj [("ok", valJson (normX I (tyOf (getObj j "ty")) (valOf (getObj j "val"))))]
  | "soap.decode" =>
    outJson (fun (r : Text × Val) => Json.arr #[strJson r.1, valJson r.2])
      (Soap.soapServerDecode F X S cfg I (soapVerOf j) (methodsOf j) (nodeOf (getObj j "doc")))
  | "xml.serverDecode" =>
    outJson (fun (r : Text × Val) => Json.arr #[strJson r.1, valJson r.2])
      (Soap.xmlServerDecode F X cfg I (methodsOf j) (nodeOf (getObj j "doc")))
  | "soap.decodeH" =>
    outJson (fun (r : Text × Option Val × Val) => Json.arr #[strJson r.1,
        (match r.2.1 with | none => Json.mkObj [("absent", Json.bool true)] | some h => Json.mkObj [("h", valJson h)]),
        valJson r.2.2])
      (Soap.soapServerDecodeH F X S cfg I (soapVerOf j) (methodsOf j) (hdrsOf j) (nodeOf (getObj j "doc")))
  | "soap.headers" =>
    outJson (fun (r : Option (List Node)) => match r with
        | none => Json.null
        | some ns => Json.arr (ns.map nodeJson).toArray)
      (Soap.headerNodes F S cfg I (tyListOf (getObj j "classes")) (outHeaderOf (getObj j "out")))
  | "response" =>
    Json.mkObj [("ok", Json.arr ((Soap.responseNodes F S cfg I (styleOf (getStr j "style")) (strText j "outName")
      (tyOf (getObj j "outMsg")) ((getArr j "rets").toList.map valOf)).map nodeJson).toArray)]
  | "argsOf" =>
    Json.mkObj [("ok", Json.arr ((Soap.argsOf (styleOf (getStr j "style")) (valOf (getObj j "val"))).map valJson).toArray)]
  | "client.pack" =>
    Json.mkObj [("ok", valJson (Client.requestObject CF (tyOf (getObj j "inMsg"))
      ((getArr j "args").toList.map valOf)
      ((getArr j "kwargs").toList.map (fun e => match e with
        | .arr #[.str k, v] => (k.toList, valOf v)
        | _ => ([], Val.none)))))]
  | "client.unwrap" =>
    Json.mkObj [("ok", valJson (Client.unwrap (tyOf (getObj j "outMsg")) (valOf (getObj j "val"))))]
  | "soap.encode" =>
    Json.mkObj [("ok", nodeJson (Soap.envelope (soapVerOf j)
      (encode F cfg I (strText j "ns") (strText j "name") (tyOf (getObj j "ty")) (valOf (getObj j "val")))))]
  | op => Json.mkObj [("driver_error", Json.str s!"unknown op {op}")]

end XmlCodec
