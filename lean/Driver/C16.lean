/- Line-protocol driver entry for C16 (XML side; the dict-document side may add its own ops). -/
import Driver.XmlCodec
def main : IO Unit := Driver.run XmlCodec.step
