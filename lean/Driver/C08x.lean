/- Line-protocol driver for the second part of the C08 model (Decimal, XsdLex, Uuid, DateTime
   customisations, Double wrapper). -/
import Driver.Util
import SpyneModel.Prim2
import SpyneModel.Generated.Facts08
import SpyneModel.Generated.Facts08x
open Lean SpyneModel Driver

def F := SpyneModel.Generated.facts08
def G := SpyneModel.Generated.facts08x

def outJson {α} (f : α → Json) : Outcome α → Json
  | .ok a => Json.mkObj [("ok", f a)]
  | .fault => Json.mkObj [("fault", Json.str "Client.ValidationError")]
  | .crash e => Json.mkObj [("crash", Json.str e)]

def dtJson (x : DateTime) : Json :=
  Json.arr #[x.date.y, x.date.m, x.date.d, x.time.h, x.time.mi, x.time.s, x.time.us,
    match x.tz with | none => Json.null | some m => Json.num (JsonNumber.fromInt m)]

def getDT (a : Array Json) : DateTime :=
  let n (i : Nat) : Nat := match a[i]? with | some j => (j.getNat?.toOption.getD 0) | none => 0
  let tz : Option Int := match a[7]? with
    | some (Json.num k) => some k.mantissa
    | _ => none
  ⟨⟨n 0, n 1, n 2⟩, ⟨n 3, n 4, n 5, n 6⟩, tz⟩

def getOptInt (j : Json) (k : String) : Option Int :=
  match j.getObjVal? k with
  | .ok (.num n) => some n.mantissa
  | _ => none

def getNats (j : Json) (k : String) : List Nat :=
  (getArr j k).toList.map (fun c => c.getNat?.toOption.getD 0)
def natsJson (l : List Nat) : Json := Json.arr (l.map (fun (n : Nat) => (n : Json))).toArray

def decVJson : DecV → Json
  | .fin d => Json.mkObj [("d", Json.arr #[Json.bool d.neg, Json.str (toString d.coeff), Json.str (toString d.exp)])]
  | .inf neg => Json.mkObj [("special", Json.str (if neg then "-inf" else "inf"))]
  | .nan => Json.mkObj [("special", Json.str "nan")]

def dblJson : Dbl Text → Json
  | .nan => Json.mkObj [("special", Json.str "nan")]
  | .inf neg => Json.mkObj [("special", Json.str (if neg then "-inf" else "inf"))]
  | .fin t => Json.mkObj [("fin", textJson t)]

def optJson {α} (f : α → Json) : Option α → Json
  | some a => Json.mkObj [("ok", f a)]
  | none => Json.mkObj [("fault", Json.str "Client.ValidationError")]

/-- a format travels as a list of items: a directive letter (string) or a literal code point (number) -/
def getFmt (j : Json) : Fmt :=
  (getArr j "fmt").toList.filterMap (fun i =>
    match i with
    | .str "Y" => some (.dir .Y) | .str "m" => some (.dir .m) | .str "d" => some (.dir .d)
    | .str "H" => some (.dir .H) | .str "M" => some (.dir .M) | .str "S" => some (.dir .S)
    | .num n => some (.lit (Char.ofNat n.mantissa.toNat))
    | _ => none)

def getEnc (j : Json) (k : String) : Option BaEnc :=
  match getStr j k with
  | "hex" => some .hex | "base64" => some .base64 | "urlsafe_base64" => some .urlsafe | _ => none

def lexOf (t : String) (s : Text) : Json :=
  match t with
  | "integer" => Json.bool (XsdLex.integer s)
  | "decimal" => Json.bool (XsdLex.decimal s)
  | "boolean" => Json.bool (XsdLex.boolean s)
  | "dateTime" => Json.bool (XsdLex.dateTime s)
  | "date" => Json.bool (XsdLex.date s)
  | "time" => Json.bool (XsdLex.time s)
  | "duration" => Json.bool (XsdLex.duration s)
  | "double" => Json.bool (XsdLex.double s)
  | "uuid" => Json.bool (uuidPattern s)
  | "base64Binary" => Json.bool (XsdLex.base64Binary s)
  | "hexBinary" => Json.bool (XsdLex.hexBinary s)
  | _ => Json.null

def step (j : Json) : Json :=
  match getStr j "op" with
  | "dec.to" =>
    let d : Dec := ⟨getBool j "neg", (getBigInt j "coeff").toNat, getBigInt j "exp"⟩
    Json.mkObj [("ok", textJson (decToText d))]
  | "dec.from" => outJson decVJson (decFromText G (getText j "s"))
  | "xsdlex" => Json.mkObj [("ok", lexOf (getStr j "t") (getText j "s"))]
  | "xsd.decvalue" =>
    let v := XsdLex.valueOfDecimal (getText j "s")
    Json.mkObj [("ok", Json.arr #[Json.str (toString v.1), Json.str (toString v.2)])]
  | "xsd.intvalue" => Json.mkObj [("ok", Json.str (toString (XsdLex.valueOfInteger (getText j "s"))))]
  | "xsd.dtvalue" =>
    match XsdLex.dateTimeLit (getText j "s") with
    | some l => (match l.value? with
                 | some x => Json.mkObj [("ok", dtJson x)]
                 | none => Json.mkObj [("ok", Json.str "unrepresentable")])
    | none => Json.mkObj [("ok", Json.null)]
  | "xsd.durvalue" =>
    match XsdLex.durationLit (getText j "s") with
    | some l => Json.mkObj [("ok", Json.arr #[Json.bool l.neg, (l.years : Json), (l.months : Json),
                  Json.str (toString l.micros)])]
    | none => Json.mkObj [("ok", Json.null)]
  | "uuid.to" =>
    let form : UuidForm := match getStr j "form" with | "hex" => .hex | "urn" => .urn | _ => .canonical
    Json.mkObj [("ok", textJson (uuidToTextAs form (getNats j "v")))]
  | "hex.to" => Json.mkObj [("ok", textJson (hexenc (getNats j "v")))]
  | "hex.from" => optJson natsJson (hexdec (getText j "s"))
  | "b64.to" => Json.mkObj [("ok", textJson (b64enc (getBool j "url") (getNats j "v")))]
  | "b64.from" => optJson natsJson (b64dec (getBool j "url") (getText j "s"))
  | "dtf.to" =>
    outJson textJson (dateTimeToTextFmt G (getBool j "soap") (getFmt j) (getOptInt j "as") (getBool j "same")
      (getBool j "tzflag") (getDT (getArr j "v")))
  | "dtf.from" => outJson dtJson (dateTimeFromTextFmt G (getFmt j) (getOptInt j "as") (getText j "s"))
  | "datef.to" =>
    let a := getNats j "v"
    Json.mkObj [("ok", textJson (dateToTextFmt G (getBool j "soap") (getFmt j) ⟨a.getD 0 0, a.getD 1 0, a.getD 2 0⟩))]
  | "datef.from" =>
    outJson (fun (d : Date) => Json.arr #[d.y, d.m, d.d]) (dateFromTextFmt F (getFmt j) (getText j "s"))
  | "b64ws.from" => optJson natsJson (b64FromText G (getText j "s"))
  | "ba.to" =>
    (match byteArrayToTextP G (getEnc j "declared") (getEnc j "suggested") (getEnc j "default") (getNats j "v") with
     | some t => Json.mkObj [("ok", textJson t)]
     | none => Json.mkObj [("crash", Json.str "ValueError")])
  | "ba.from" => optJson natsJson (byteArrayFromTextP (getEnc j "declared") (getEnc j "suggested") (getText j "s"))
  | "fmt.wf" => Json.mkObj [("ok", Json.bool (Fmt.wf (getFmt j)))]
  | "uuid.from" => outJson natsJson (uuidFromText (getText j "s"))
  | "dtc.to" =>
    outJson textJson (dateTimeToTextC (getBool j "soap") (getOptInt j "as") (getBool j "same") (getBool j "tzflag") (getDT (getArr j "v")))
  | "dtc.from" => outJson dtJson (dateTimeFromTextC F G (getOptInt j "as") (getText j "s"))
  | "double.to" =>
    let v : Dbl Text := match getStr j "k" with
      | "nan" => .nan | "inf" => .inf false | "-inf" => .inf true | _ => .fin (getText j "r")
    Json.mkObj [("ok", textJson (doubleToText (fun (t : Text) => t) v))]
  | "double.from" =>
    -- the finite parser is CPython's: the harness supplies its verdict (`fin` = repr of float(s), or absent)
    let parseF : Text → Option (Dbl Text) := fun _ =>
      match getStr j "pk" with
      | "fin" => some (.fin (getText j "pr"))
      | "inf" => some (.inf false) | "-inf" => some (.inf true) | "nan" => some .nan
      | _ => none
    outJson dblJson (doubleFromText parseF (getText j "s"))
  | op => Json.mkObj [("driver_error", Json.str s!"unknown op {op}")]

def main : IO Unit := Driver.run step
