/- Line-protocol driver for the C13 model (WSGI response protocol and request-size limit). -/
import Driver.Util
import SpyneModel.Wsgi
import SpyneModel.Generated.Facts13
open Lean SpyneModel SpyneModel.Wsgi Driver

def F13 := SpyneModel.Generated.facts13

def getObj (j : Json) (k : String) : Json :=
  match j.getObjVal? k with | .ok v => v | .error _ => Json.null

def optNat (j : Json) (k : String) : Option Nat :=
  match j.getObjVal? k with
  | .ok (.num n) => some n.mantissa.toNat
  | _ => none

def optText (j : Json) (k : String) : Option Text :=
  match j.getObjVal? k with
  | .ok (.arr _) => some (getText j k)
  | _ => none

def fcOf (s : String) : FaultClass :=
  match s with
  | "tooLong" => .tooLong | "notFound" => .notFound | "notAllowed" => .notAllowed
  | "invalidCreds" => .invalidCreds | "server" => .server | _ => .client

def fcName : FaultClass → String
  | .tooLong => "tooLong" | .notFound => "notFound" | .notAllowed => "notAllowed"
  | .invalidCreds => "invalidCreds" | .client => "client" | .server => "server"

def natList (j : Json) (k : String) : List Nat :=
  (getArr j k).toList.map (fun c => match c.getNat? with | .ok n => n | .error _ => 0)

def getCfg (j : Json) : Cfg := ⟨getBool j "chunked", getNat j "max", getNat j "block"⟩

def getResp (j : Json) : Resp :=
  { preset := optNat j "preset",
    gen := (match getStr j "gen" with
      | "yields" => .yields | "empty" => .empty | "raises" => .raises (fcOf (getStr j "fc")) | _ => .notGen),
    serializeFails := getBool j "serFails",
    dumpFails := getBool j "dumpFails",
    serFailClass := (match getStr j "serFc" with | "" => .server | x => fcOf x),
    chunks := natList j "chunks",
    sized := getBool j "sized" }

def getReq (j : Json) : Req :=
  { wsdl := (match getStr j "wsdl" with
      | "ok" => some (.ok (getNat j "wsdlLen")) | "unavailable" => some .unavailable
      | "buildError" => some .buildError | _ => none),
    soapOut := getBool j "soapOut", soapIn := getBool j "soapIn",
    preReject := getBool j "preReject", readsBody := getBool j "readsBody",
    contentLength := optText j "cl", docLen := getNat j "docLen", faultLen := getNat j "faultLen",
    intended := (match getStr j "intended" with
      | "malformed" => .malformed | "unknown" => .unknownMethod | "validation" => .validationError
      | "inputHandlerFails" => .inputHandlerFails
      | "userFault" => .userFault (fcOf (getStr j "fc")) (optNat j "preset")
      | _ => .success (getResp j)),
    onReturn := (match j.getObjVal? "onReturn" with
      | .ok (.obj _) => some ⟨natList (getObj j "onReturn") "chunks", getBool (getObj j "onReturn") "sized"⟩
      | _ => none),
    onException := (match j.getObjVal? "onException" with
      | .ok (.arr _) => some (natList j "onException")
      | _ => none),
    aux := (match getStr j "aux" with
      | "ok" => .ok | "userFault" => .userFault | "userCrash" => .userCrash | "serFail" => .serFail | _ => .none),
    auxOnErrors := getBool j "auxOnErrors",
    userHeaders := (getArr j "userHeaders").toList.map (fun h =>
      match getStr h "k" with
      | "list" => HVal.list (getNat h "n") | "tuple" => HVal.tuple (getNat h "n") | _ => HVal.str),
    closeListener := (match getStr j "closeListener" with
      | "ctx" => .ctxClosedRaises | "wsgi" => .wsgiCloseRaises | _ => .none),
    serverSkipsClose := getBool j "noclose",
    faultBody := (match j.getObjVal? "faultBody" with
      | .ok (.arr _) => some (natList j "faultBody")
      | _ => none),
    faultIter := (match getStr j "faultIter" with
      | "generator" => .generator | "iterator" => .iterator | _ => .list) }

def optNatJson : Option Nat → Json
  | none => Json.null
  | some n => Json.num n

def evJson : Ev → Json
  | .read a g => Json.arr #["read", a, g]
  | .user => Json.arr #["user"]
  | .startResponse s f c =>
    Json.arr #["sr", s, (match f with | none => Json.null | some x => Json.str (fcName x)), optNatJson c]
  | .returned => Json.arr #["ret"]
  | .chunk n b => Json.arr #["chunk", n, b]
  | .ctxClosed => Json.arr #["closed"]
  | .wsgiClose => Json.arr #["wsgiClose"]
  | .aux => Json.arr #["aux"]
  | .lraise => Json.arr #["lraise"]
  | .hdr k b => Json.arr #["hdr", k, b]
  | .crash c => Json.arr #["crash", c]

def step (j : Json) : Json :=
  match getStr j "op" with
  | "handle" =>
    let tr := handle F13 (getCfg (getObj j "cfg")) (getReq (getObj j "req")) (natList j "stream") (optNat j "abort")
    Json.mkObj [("trace", Json.arr (tr.map evJson).toArray)]
  | "length" =>
    let r := declaredLength (getCfg (getObj j "cfg")) (optText j "cl")
    Json.mkObj [("length", match r with | none => Json.null | some i => bigIntJson i)]
  | op => Json.mkObj [("driver_error", Json.str s!"unknown op {op}")]

def main : IO Unit := Driver.run step
