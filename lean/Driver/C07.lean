/- Line-protocol driver for the C07 model (WSDL / XSD rendering). -/
import Driver.Util
import SpyneModel.Wsdl
import SpyneModel.Generated.Facts07
open Lean SpyneModel SpyneModel.Wsdl Driver

def F07 := SpyneModel.Generated.facts07

def optStr (j : Json) (k : String) : Option String :=
  match j.getObjVal? k with | .ok (.str s) => some s | _ => none

def optNat (j : Json) (k : String) : Option Nat :=
  match j.getObjVal? k with | .ok (.num n) => some n.mantissa.toNat | _ => none

def strList (j : Json) : List String :=
  match j with | .arr a => a.toList.filterMap (fun x => match x with | .str s => some s | _ => none) | _ => []

def natList (j : Json) : List Nat :=
  match j with | .arr a => a.toList.map (fun x => x.getNat?.toOption.getD 0) | _ => []

def optNatList (j : Json) (k : String) : Option (List Nat) :=
  match j.getObjVal? k with | .ok (.arr a) => some (natList (.arr a)) | _ => none

def getField (j : Json) : Field :=
  { name := getStr j "name", subName := optStr j "subName", ty := getNat j "ty", isAttr := getBool j "isAttr", isData := getBool j "isData",
    inner := getNat j "inner", use := optStr j "use", minOccurs := optStr j "minOccurs",
    maxOccurs := optStr j "maxOccurs", nillable := getBool j "nillable" }

def getKind (s : String) : Kind :=
  match s with | "simple" => .simple | "enum" => .enum | "complex" => .complex | _ => .builtin

def getSubNs (j : Json) : SubNs :=
  match j.getObjVal? "subNs" with
  | .ok (.str "#default") => .dflt
  | .ok (.str s) => .explicit s
  | _ => .unset

def getCls (j : Json) : Cls :=
  { repr := getStr j "repr", ns := getStr j "ns", tn := getStr j "tn", kind := getKind (getStr j "kind"),
    ext := optNat j "ext", fields := (getArr j "fields").toList.map getField, subName := optStr j "subName",
    subNs := getSubNs j, wsdlPart := optStr j "wsdlPart",
    enums := strList ((j.getObjVal? "enums").toOption.getD (.arr #[])),
    mixinFirst := getBool j "mixinFirst", mixinLast := getBool j "mixinLast" }

def getMeth (j : Json) : Meth :=
  { name := getStr j "name", opName := getStr j "opName", inMsg := getNat j "inMsg", outMsg := getNat j "outMsg",
    inHeader := optNatList j "inHeader", outHeader := optNatList j "outHeader",
    faults := natList ((j.getObjVal? "faults").toOption.getD (.arr #[])), portType := optStr j "portType",
    doc := optStr j "doc" }

def getSvc (j : Json) : Svc :=
  { name := getStr j "name", portTypes := strList ((j.getObjVal? "portTypes").toOption.getD (.arr #[])),
    methods := (getArr j "methods").toList.map getMeth }

def pair2 {α β} (f : Json → α) (g : Json → β) (j : Json) : Option (α × β) :=
  match j with | .arr a => (match a[0]?, a[1]? with | some x, some y => some (f x, g y) | _, _ => none) | _ => none

def jstr (j : Json) : String := match j with | .str s => s | _ => ""
def jnat (j : Json) : Nat := j.getNat?.toOption.getD 0

/-- a prefix string: `s<digits>` (canonical decimal) is a generated-style prefix -/
def parsePref (s : String) : Pref :=
  match s.toList with
  | 's' :: ds =>
    if !ds.isEmpty && ds.all Char.isDigit && (ds.length == 1 || ds.head? != some '0') then
      .gen ((String.ofList ds).toNat?.getD 0)
    else .named s
  | _ => .named s

def getIState (j : Json) : IState :=
  { tns := getStr j "tns", name := getStr j "name",
    staticNs := (getArr j "staticNs").toList.filterMap (pair2 jstr jstr),
    pins := (getArr j "pins").toList.filterMap (pair2 (fun x => parsePref (jstr x)) jstr),
    classes := (getArr j "classes").toList.map getCls,
    deps := (getArr j "deps").toList.filterMap (pair2 jnat natList),
    imports := (getArr j "imports").toList.filterMap (pair2 jstr strList),
    services := (getArr j "services").toList.map getSvc,
    transport := getStr j "transport", inSoap12 := getBool j "inSoap12", outSoap12 := getBool j "outSoap12" }

/-- enumeration orders observed on the implementation side: known orders of string sets, and a global order hint
    for class sets -/
def getEnum (j : Json) : Enum :=
  let orders := (getArr j "enumS").toList.map strList
  let hint := natList ((j.getObjVal? "enumN").toOption.getD (.arr #[]))
  { permS := fun l =>
      match orders.find? (fun o => o.length == l.length && o.all (fun x => l.contains x) && l.all (fun x => o.contains x)) with
      | some o => o
      | none => l,
    permN := fun l => hint.filter (fun x => l.contains x) ++ l.filter (fun x => !hint.contains x) }

def prefStr : Pref → String
  | .named s => s
  | .gen k => "s" ++ toString k

def qnJson (pm : List (String × Pref)) (q : QN) : Json :=
  Json.str ((match pm.lookup q.ns with | some pf => prefStr pf | none => "?") ++ ":" ++ q.loc)
def osJson : Option String → Json | some s => Json.str s | none => Json.null
def strsJson (l : List String) : Json := Json.arr (l.map Json.str).toArray
def arrJson {α} (f : α → Json) (l : List α) : Json := Json.arr (l.map f).toArray

def typeJson (pm : List (String × Pref)) (t : TypeDef) : Json :=
  Json.mkObj [("name", t.name), ("complex", t.isComplex),
    ("base", match t.base with | some q => qnJson pm q | none => Json.null),
    ("elems", arrJson (fun (p : Particle) => Json.mkObj [("name", p.name), ("type", qnJson pm p.type),
        ("min", osJson p.minOccurs), ("max", osJson p.maxOccurs), ("nillable", p.nillable)]) t.elems),
    ("attrs", arrJson (fun (a : AttrDecl) => Json.mkObj [("name", a.name), ("type", qnJson pm a.type), ("use", osJson a.use)]) t.attrs),
    ("enums", strsJson t.enums), ("dataBases", arrJson (qnJson pm) t.dataBases)]

def schemaJson (pm : List (String × Pref)) (s : Schema) : Json :=
  Json.mkObj [("tns", s.tns), ("imports", strsJson s.imports), ("types", arrJson (typeJson pm) s.types),
    ("elements", arrJson (fun (e : ElemDecl) => Json.mkObj [("name", e.name), ("type", qnJson pm e.type)]) s.elements)]

def bhJson (pm : List (String × Pref)) (h : BHeader) : Json := Json.mkObj [("message", qnJson pm h.message), ("part", h.part)]

def docJson (d : Doc) : Json :=
  let pm := d.prefmap
  Json.mkObj [
    ("nsdecl", arrJson (fun (pn : Pref × String) => Json.arr #[Json.str (prefStr pn.1), Json.str pn.2]) d.nsdecl),
    ("tns", d.tns), ("name", d.name), ("schemas", arrJson (schemaJson pm) d.schemas),
    ("messages", arrJson (fun (m : Msg) => Json.mkObj [("name", m.name),
        ("parts", arrJson (fun (p : Part) => Json.mkObj [("name", p.name), ("element", qnJson pm p.element)]) m.parts)]) d.messages),
    ("services", arrJson (fun (s : Service) => Json.mkObj [("name", s.name),
        ("ports", arrJson (fun (p : Port) => Json.mkObj [("name", p.name), ("binding", qnJson pm p.binding), ("location", p.location)]) s.ports)]) d.services),
    ("portTypes", arrJson (fun (pt : PortType) => Json.mkObj [("name", pt.name),
        ("ops", arrJson (fun (o : Op) => Json.mkObj [("name", o.name), ("doc", osJson o.doc), ("paramOrder", o.paramOrder), ("inName", o.inName),
            ("inMsg", qnJson pm o.inMsg), ("outName", o.outName), ("outMsg", qnJson pm o.outMsg),
            ("faults", arrJson (fun (f : OpFault) => Json.mkObj [("name", f.name), ("message", qnJson pm f.message)]) o.faults)]) pt.ops)]) d.portTypes),
    ("bindings", arrJson (fun (b : Binding) => Json.mkObj [("name", b.name), ("type", qnJson pm b.type), ("transport", b.transport),
        ("soap12", b.soap12),
        ("ops", arrJson (fun (o : BOp) => Json.mkObj [("name", o.name), ("soapAction", o.soapAction), ("inName", o.inName),
            ("inHeaders", arrJson (bhJson pm) o.inHeaders), ("outName", o.outName), ("outHeaders", arrJson (bhJson pm) o.outHeaders),
            ("faults", strsJson o.faults)]) b.ops)]) d.bindings)]

def natsJson (l : List Nat) : Json := Json.arr (l.map (fun (n : Nat) => (n : Json))).toArray

def step (j : Json) : Json :=
  match getStr j "op" with
  | "gen" =>
    let I := ((getIState j).resolveHandlers F07).addMethodFaults F07
    let e := getEnum j
    let tiers := match topo F07 e I.reprKey I.deps with
      | .ok ts => arrJson natsJson ts
      | .fault => Json.str "fault"
      | .crash x => Json.mkObj [("crash", Json.str x)]
    match gen F07 e I (getStr j "url") with
    | .ok d => Json.mkObj [("ok", docJson d), ("closed", d.closed), ("importsCover", d.importsCover),
        ("opsOnce", d.opsExactlyOnce I), ("wellDefined", d.wellDefined), ("wf", I.wf), ("wfOps", I.wfOps), ("tiers", tiers),
        ("wfBadCls", natsJson ((List.range I.classes.length).filter (fun i => !I.wfCls i))),
        ("wfBadMeth", strsJson (((allMethods I).filter (fun m => !I.wfMeth m)).map (·.name)))]
    | .fault => Json.mkObj [("fault", Json.str "fault")]
    | .crash x => Json.mkObj [("crash", Json.str x), ("wf", I.wf), ("tiers", tiers)]
  | "sort" => strsJson (isortBy skey (strList ((j.getObjVal? "l").toOption.getD (.arr #[]))))
  | op => Json.mkObj [("driver_error", Json.str s!"unknown op {op}")]

def main : IO Unit := Driver.run step
