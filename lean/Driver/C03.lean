/- Line-protocol driver for the C03 model (HttpRpc flat key/value notation). -/
import Driver.Util
import SpyneModel.Flat
import SpyneModel.FlatQs
import SpyneModel.Generated.Facts03
open Lean SpyneModel SpyneModel.Flat Driver

namespace C03
def F := SpyneModel.Generated.facts03

instance : Inhabited Ty := ⟨.prim .int⟩
instance : Inhabited Occ := ⟨⟨false, 0, none⟩⟩
instance : Inhabited Node := ⟨.none⟩

def jText (j : Json) : Text :=
  match j with
  | .arr a => a.toList.map (fun c => match c.getNat? with | .ok n => Char.ofNat n | .error _ => '?')
  | _ => []

def jOptText (j : Json) : Option Text := match j with | .null => none | _ => some (jText j)

def jNat (j : Json) : Nat := match j.getNat? with | .ok n => n | .error _ => 0

def jArr (j : Json) : List Json := match j with | .arr a => a.toList | _ => []

def fld (j : Json) (k : String) : Json := match j.getObjVal? k with | .ok v => v | .error _ => .null

def jBool (j : Json) : Bool := match j with | .bool b => b | _ => false

partial def jTy (j : Json) : Ty :=
  match getStr j "k" with
  | "int" => .prim .int
  | "str" => .prim .str
  | "bool" => .prim .bool
  | "dt" => .prim .str      -- DateTime out-header member: the kind is irrelevant to the encoder
  | _ => .obj (jNat (fld j "cid")) ((jArr (fld j "fields")).map jFld)
where
  jFld (f : Json) : Fld :=
    (jText (fld f "n"),
     ⟨jBool (fld f "many"), jNat (fld f "min"), (match fld f "max" with | .null => none | x => some (jNat x))⟩,
     jTy (fld f "t"))

def jFields (j : Json) : List Fld := (jArr j).map jTy.jFld

def jCfg (j : Json) : Cfg := ⟨jBool (fld j "strict"), jBool (fld j "soft"), jText (fld j "delim")⟩

def jDoc (j : Json) : Doc := (jArr j).map fun kv =>
  match kv with
  | .arr a => (jText (a[0]?.getD .null), (jArr (a[1]?.getD .null)).map jOptText)
  | _ => ([], [])

def leafJson : Leaf → Json
  | .none => .null
  | .int i => Json.mkObj [("i", Json.str (toString i))]
  | .str s => Json.mkObj [("s", textJson s)]
  | .bool b => Json.mkObj [("b", Json.bool b)]
  | .dt x => Json.mkObj [("dt", Json.arr #[x.date.y, x.date.m, x.date.d, x.time.h, x.time.mi, x.time.s, x.time.us,
      match x.tz with | none => Json.null | some m => Json.num (JsonNumber.fromInt m)])]

partial def nodeJson : Node → Json
  | .none => .null
  | .leaf v => leafJson v
  | .leaves vs => Json.mkObj [("l", Json.arr (vs.map leafJson).toArray)]
  | .obj attrs => Json.mkObj [("o", Json.arr (attrs.map (fun kv => Json.arr #[textJson kv.1, nodeJson kv.2])).toArray)]
  | .arr _ items => Json.mkObj [("l", Json.arr (items.map nodeJson).toArray)]

def jDt (a : Array Json) : DateTime :=
  let n (i : Nat) : Nat := match a[i]? with | some j => (j.getNat?.toOption.getD 0) | none => 0
  ⟨⟨n 0, n 1, n 2⟩, ⟨n 3, n 4, n 5, n 6⟩, match a[7]? with | some (Json.num k) => some k.mantissa | _ => none⟩

def jLeaf (j : Json) : Leaf :=
  match j with
  | .null => .none
  | _ =>
    match j.getObjVal? "dt" with
    | .ok (.arr a) => .dt (jDt a)
    | _ =>
    match j.getObjVal? "i" with
    | .ok (.str s) => .int (s.toInt?.getD 0)
    | _ =>
      match j.getObjVal? "s" with
      | .ok t => .str (jText t)
      | _ => match j.getObjVal? "b" with | .ok (.bool b) => .bool b | _ => .none

/-- a native object in the encoding of `nodeJson`, read back under the guidance of the type -/
partial def jNode (many : Bool) (t : Ty) (j : Json) : Node :=
  match j with
  | .null => .none
  | _ =>
    if many then
      match t with
      | .prim _ => .leaves ((jArr (fld j "l")).map jLeaf)
      | .obj _ _ => .arr [] ((jArr (fld j "l")).map (jNode false t))
    else
      match t with
      | .prim _ => .leaf (jLeaf j)
      | .obj _ fs =>
        let attrs := jArr (fld j "o")
        .obj (fs.map fun f =>
          let v := (attrs.find? (fun kv => jText ((jArr kv)[0]?.getD .null) = f.1)).map (fun kv => (jArr kv)[1]?.getD .null)
          (f.1, jNode f.2.1.many f.2.2 (v.getD .null)))

def outJson {α} (f : α → Json) : Outcome α → Json
  | .ok a => Json.mkObj [("ok", f a)]
  | .fault => Json.mkObj [("fault", Json.str "Client.ValidationError")]
  | .crash e => Json.mkObj [("crash", Json.str e)]

def docJson (d : Doc) : Json :=
  Json.arr (d.map (fun kv => Json.arr #[textJson kv.1,
    Json.arr (kv.2.map (fun v => match v with | none => Json.null | some t => textJson t)).toArray])).toArray

def natsJson (l : List Nat) : Json := Json.arr (l.map (fun (n : Nat) => (n : Json))).toArray

def encValJson : EncVal → Json
  | .one v => Json.mkObj [("one", leafJson v)]
  | .many vs => Json.mkObj [("many", Json.arr (vs.map leafJson).toArray)]
  | .empty => Json.str "empty"

def jRet (j : Json) : RetVal :=
  match j with
  | .null => .none
  | _ =>
    match j.getObjVal? "bytes" with
    | .ok c => .bytes ((jArr c).map (fun ch => (jArr ch).map jNat))
    | _ => .leaf (jLeaf j)

def step (j : Json) : Json :=
  match getStr j "op" with
  | "key.strip" => textJson (stripIdx (jText (fld j "s")))
  | "key.idx" => natsJson (findIdx (jText (fld j "s")))
  | "key.sort" =>
    Json.arr ((sortBy (fun a b => keyLt F a b) ((jArr (fld j "keys")).map jText)).map textJson).toArray
  | "s2cmi" =>
    let m := (jArr (fld j "m")).map (fun kv => (jNat ((jArr kv)[0]?.getD .null), jNat ((jArr kv)[1]?.getD .null)))
    let r := s2cmi m (jNat (fld j "nidx"))
    Json.mkObj [("ret", r.1), ("m", Json.arr (r.2.map (fun kv => Json.arr #[(kv.1 : Json), (kv.2 : Json)])).toArray)]
  | "sti" =>
    Json.arr ((stiFields (jText (fld j "delim")) [] (jFields (fld j "fields"))).map (fun kv =>
      Json.arr #[textJson kv.1, Json.arr (kv.2.path.map textJson).toArray,
        Json.bool kv.2.prim.isNone, Json.bool kv.2.many])).toArray
  | "hdr.date" => textJson (httpDate (jDt (getArr j "v")))
  | "qs.parse" => docJson (parseQs F (jText (fld j "qs")))
  | "qs.quote" => textJson (quote (jText (fld j "s")))
  | "qs.unquote" => textJson (unquote (jText (fld j "s")))
  | "flat.decode" => outJson nodeJson (decode F (jCfg (fld j "cfg")) (jFields (fld j "fields")) (jDoc (fld j "doc")))
  | "http.get" => outJson nodeJson (decodeQs F (jCfg (fld j "cfg")) (jFields (fld j "fields")) (jText (fld j "qs")))
  | "flat.encode" =>
    let fs := jFields (fld j "fields")
    let inst := jNode false (.obj 0 fs) (fld j "inst")
    Json.arr ((encode (jText (fld j "delim")) fs inst).map (fun kv => Json.arr #[textJson kv.1, encValJson kv.2])).toArray
  | "http.return" =>
    let hf := jFields (fld j "hdrFields")
    let r := response (jText (fld j "mime")) hf (jNode false (.obj 0 hf) (fld j "hdr")) (jRet (fld j "ret"))
    Json.mkObj [("headers", Json.arr (r.1.map (fun kv => Json.arr #[textJson kv.1, textJson kv.2])).toArray),
                ("body", natsJson r.2)]
  | op => Json.mkObj [("driver_error", Json.str s!"unknown op {op}")]
end C03

def main : IO Unit := Driver.run C03.step
