/- Line-protocol driver for the C03 model (HttpRpc flat key/value notation). -/
import Driver.Util
import SpyneModel.Flat
import SpyneModel.FlatQs
import SpyneModel.FlatDecl
import SpyneModel.Generated.Facts03
open Lean SpyneModel SpyneModel.Flat Driver

namespace C03
def F := SpyneModel.Generated.facts03

instance : Inhabited Flat.Ty := ⟨.prim .boolean⟩
instance : Inhabited Flat.Occ := ⟨⟨false, 0, none, true⟩⟩
instance : Inhabited Node := ⟨.none⟩

def jText (j : Json) : Text :=
  match j with
  | .arr a => a.toList.map (fun c => match c.getNat? with | .ok n => Char.ofNat n | .error _ => '?')
  | _ => []

def jOptText (j : Json) : Option Text := match j with | .null => none | _ => some (jText j)

def jNat (j : Json) : Nat := match j.getNat? with | .ok n => n | .error _ => 0

def jArr (j : Json) : List Json := match j with | .arr a => a.toList | _ => []

def fld (j : Json) (k : String) : Json := match j.getObjVal? k with | .ok v => v | .error _ => .null

def jBool (j : Json) : Bool := match j with | .bool b => b | _ => false

def jBig (j : Json) : Int :=
  match j with
  | .str s => s.toInt?.getD 0
  | .num n => n.mantissa
  | _ => 0

def jOptBig (j : Json) (k : String) : Option Int :=
  match j.getObjVal? k with
  | .ok .null => none
  | .ok v => some (jBig v)
  | .error _ => none

def jOptNat (j : Json) (k : String) : Option Nat :=
  match j.getObjVal? k with
  | .ok (.num n) => some n.mantissa.toNat
  | _ => none

def kindOf (s : String) : IntKind :=
  match s with
  | "i8" => .i8 | "i16" => .i16 | "i32" => .i32 | "i64" => .i64
  | "u8" => .u8 | "u16" => .u16 | "u32" => .u32 | "u64" => .u64
  | _ => .unbounded

def jPattern (j : Json) : Option Pattern :=
  match j with
  | .obj _ =>
    some { ranges := (getArr j "ranges").toList.map (fun r =>
              match r with
              | .arr a => (Char.ofNat ((a[0]?.bind (·.getNat?.toOption)).getD 0), Char.ofNat ((a[1]?.bind (·.getNat?.toOption)).getD 0))
              | _ => ('a', 'a')),
           min := getNat j "min", max := jOptNat j "max" }
  | _ => none

/-- a primitive type in the shared JSON encoding of `PrimTy` (harness/hierblock.py) -/
def jPrim (j : Json) : Option PK :=
  match getStr j "k" with
  | "int" =>
    let r := fld j "r"
    some (.integer (kindOf (getStr j "kind")) { ge := jOptBig r "ge", gt := jOptBig r "gt", le := jOptBig r "le", lt := jOptBig r "lt" })
  | "bool" => some .boolean
  | "str" => some (.unicode (getNat j "minLen") (jOptNat j "maxLen") (jPattern (fld j "pattern"))
                ((getArr j "values").toList.map jText))
  | "date" => some .date
  | "time" => some .time
  | "dt" => some .dateTime
  | "dur" => some .duration
  | "bytes" => some (.bytes (match getStr j "enc" with | "hex" => .hex | "urlsafe" => .urlsafe | _ => .base64))
  | "enum" => some (.enum ((getArr j "names").toList.map jText))
  | _ => none

partial def jTy (j : Json) : Flat.Ty :=
  match jPrim j with
  | some p => .prim p
  | none => .obj (jNat (fld j "cid")) ((jArr (fld j "fields")).map jFld)
where
  jFld (f : Json) : Fld :=
    (jText (fld f "n"),
     ⟨jBool (fld f "many"), jNat (fld f "min"), (match fld f "max" with | .null => none | x => some (jNat x)),
      (match fld f "nillable" with | .bool b => b | _ => true)⟩,
     jTy (fld f "t"))

def jFields (j : Json) : List Fld := (jArr j).map jTy.jFld


def jCfg (j : Json) : Cfg := ⟨jBool (fld j "strict"), jBool (fld j "soft"), jText (fld j "delim")⟩

def jDoc (j : Json) : Doc := (jArr j).map fun kv =>
  match kv with
  | .arr a => (jText (a[0]?.getD .null), (jArr (a[1]?.getD .null)).map jOptText)
  | _ => ([], [])

def natsJson (l : List Nat) : Json := Json.arr (l.map (fun (n : Nat) => (n : Json))).toArray

def leafJson : Leaf → Json
  | .none => .null
  | .int i => Json.mkObj [("i", Json.str (toString i))]
  | .bool b => Json.mkObj [("b", .bool b)]
  | .str s => Json.mkObj [("s", textJson s)]
  | .date d => Json.mkObj [("date", Json.arr #[d.y, d.m, d.d])]
  | .time t => Json.mkObj [("time", Json.arr #[t.h, t.mi, t.s, t.us])]
  | .dt x => Json.mkObj [("dt", Json.arr #[x.date.y, x.date.m, x.date.d, x.time.h, x.time.mi, x.time.s, x.time.us,
      match x.tz with | none => Json.null | some m => Json.num (JsonNumber.fromInt m)])]
  | .dur us => Json.mkObj [("dur", Json.str (toString us))]
  | .bytes bs => Json.mkObj [("x", natsJson bs)]
  | .enum n => Json.mkObj [("e", textJson n)]
  | _ => Json.str "?"

partial def nodeJson : Node → Json
  | .none => .null
  | .leaf v => leafJson v
  | .leaves vs => Json.mkObj [("l", Json.arr (vs.map leafJson).toArray)]
  | .obj attrs => Json.mkObj [("o", Json.arr (attrs.map (fun kv => Json.arr #[textJson kv.1, nodeJson kv.2])).toArray)]
  | .arr _ items => Json.mkObj [("l", Json.arr (items.map nodeJson).toArray)]

def jDt (a : Array Json) : DateTime :=
  let n (i : Nat) : Nat := match a[i]? with | some j => (j.getNat?.toOption.getD 0) | none => 0
  ⟨⟨n 0, n 1, n 2⟩, ⟨n 3, n 4, n 5, n 6⟩, match a[7]? with | some (Json.num k) => some k.mantissa | _ => none⟩

def jLeaf (j : Json) : Leaf :=
  let n (a : Array Json) (i : Nat) : Nat := match a[i]? with | some j => (j.getNat?.toOption.getD 0) | none => 0
  match j with
  | .null => .none
  | _ =>
    match j.getObjVal? "dt" with
    | .ok (.arr a) => .dt (jDt a)
    | _ =>
    match j.getObjVal? "i" with
    | .ok v => .int (jBig v)
    | _ =>
    match j.getObjVal? "s" with
    | .ok t => .str (jText t)
    | _ =>
    match j.getObjVal? "b" with
    | .ok (.bool b) => .bool b
    | _ =>
    match j.getObjVal? "date" with
    | .ok (.arr a) => .date ⟨n a 0, n a 1, n a 2⟩
    | _ =>
    match j.getObjVal? "time" with
    | .ok (.arr a) => .time ⟨n a 0, n a 1, n a 2, n a 3⟩
    | _ =>
    match j.getObjVal? "dur" with
    | .ok v => .dur (jBig v)
    | _ =>
    match j.getObjVal? "x" with
    | .ok (.arr a) => .bytes (a.toList.map (fun c => c.getNat?.toOption.getD 0))
    | _ =>
    match j.getObjVal? "e" with
    | .ok t => .enum (jText t)
    | _ => .none

/-- declared signature: members may carry "py" (Python name) next to "n" (sub_name) -/
partial def jDTy (j : Json) : Flat.DTy :=
  match jPrim j with
  | some p => .prim p
  | none => .obj (jNat (fld j "cid")) ((jArr (fld j "fields")).map jDFld)
where
  jDFld (f : Json) : DFld :=
    let occ : Flat.Occ := ⟨jBool (fld f "many"), jNat (fld f "min"), (match fld f "max" with | .null => none | x => some (jNat x)),
      (match fld f "nillable" with | .bool b => b | _ => true)⟩
    let dflt : Option Leaf := match fld f "dflt" with | .null => none | x => some (jLeaf x)
    let ro := match fld f "ro" with | .bool b => b | _ => false
    let encd := match (fld f "t").getObjVal? "encd" with | .ok (.bool b) => b | _ => false
    match fld f "py" with
    | .null => (jText (fld f "n"), { dflt := dflt, readOnly := ro, encDeclared := encd }, occ, jDTy (fld f "t"))
    | py => (jText py, { sub := some (jText (fld f "n")), dflt := dflt, readOnly := ro, encDeclared := encd }, occ,
        jDTy (fld f "t"))

def jDFields (j : Json) : List DFld := (jArr j).map jDTy.jDFld

/-- a value with identity: objects carry "id"; a list of leaves / of objects -/
partial def jLNode (j : Json) : LNode :=
  match j with
  | .null => .none
  | _ =>
    match j.getObjVal? "o" with
    | .ok (.arr a) =>
      .obj (match j.getObjVal? "id" with | .ok n => jNat n | _ => 0)
        (a.toList.map fun kv => match kv with
          | .arr p => (jText (p[0]?.getD .null), jLNode (p[1]?.getD .null))
          | _ => ([], .none))
    | _ =>
      match j.getObjVal? "l" with
      | .ok (.arr a) =>
        if (j.getObjVal? "objs").toOption.isNone then .leaves (a.toList.map jLeaf)
        else .arr (a.toList.map jLNode)
      | _ => .leaf (jLeaf j)

/-- a native object in the encoding of `nodeJson`, read back under the guidance of the type -/
partial def jNode (many : Bool) (t : Flat.Ty) (j : Json) : Node :=
  match j with
  | .null => .none
  | _ =>
    if many then
      match t with
      | .prim _ => .leaves ((jArr (fld j "l")).map jLeaf)
      | .obj _ _ => .arr [] ((jArr (fld j "l")).map (jNode false t))
    else
      match t with
      | .prim _ => .leaf (jLeaf j)
      | .obj _ fs =>
        let attrs := jArr (fld j "o")
        .obj (fs.map fun f =>
          let v := (attrs.find? (fun kv => jText ((jArr kv)[0]?.getD .null) = f.1)).map (fun kv => (jArr kv)[1]?.getD .null)
          (f.1, jNode f.2.1.many f.2.2 (v.getD .null)))

def outJson {α} (f : α → Json) : Outcome α → Json
  | .ok a => Json.mkObj [("ok", f a)]
  | .fault => Json.mkObj [("fault", Json.str "Client.ValidationError")]
  | .crash e => Json.mkObj [("crash", Json.str e)]

def docJson (d : Doc) : Json :=
  Json.arr (d.map (fun kv => Json.arr #[textJson kv.1,
    Json.arr (kv.2.map (fun v => match v with | none => Json.null | some t => textJson t)).toArray])).toArray

def encValJson : EncVal → Json
  | .one _ v => Json.mkObj [("one", leafJson v)]
  | .many _ vs => Json.mkObj [("many", Json.arr (vs.map leafJson).toArray)]
  | .empty => Json.str "empty"

def jRet (k : Json) (j : Json) : RetVal :=
  match j with
  | .null => .none
  | _ =>
    match j.getObjVal? "bytes" with
    | .ok c => .bytes ((jArr c).map (fun ch => (jArr ch).map jNat))
    | _ => .leaf ((jPrim k).getD .boolean) (jLeaf j)

def step (j : Json) : Json :=
  match getStr j "op" with
  | "key.strip" => textJson (stripIdx (jText (fld j "s")))
  | "key.idx" => natsJson (findIdx (jText (fld j "s")))
  | "key.sort" =>
    Json.arr ((sortBy (fun a b => keyLt F a b) ((jArr (fld j "keys")).map jText)).map textJson).toArray
  | "s2cmi" =>
    let m := (jArr (fld j "m")).map (fun kv => (jNat ((jArr kv)[0]?.getD .null), jNat ((jArr kv)[1]?.getD .null)))
    let r := s2cmi m (jNat (fld j "nidx"))
    Json.mkObj [("ret", r.1), ("m", Json.arr (r.2.map (fun kv => Json.arr #[(kv.1 : Json), (kv.2 : Json)])).toArray)]
  | "sti" =>
    Json.arr ((stiFields (jText (fld j "delim")) [] (jFields (fld j "fields"))).map (fun kv =>
      Json.arr #[textJson kv.1, Json.arr (kv.2.path.map textJson).toArray,
        Json.bool kv.2.prim.isNone, Json.bool kv.2.many])).toArray
  | "sti.decl" =>
    Json.arr ((stiFields (jText (fld j "delim")) [] (keyedFields F none (jDFields (fld j "fields")))).map (fun kv =>
      Json.arr #[textJson kv.1, Json.arr (kv.2.path.map textJson).toArray,
        Json.bool kv.2.prim.isNone, Json.bool kv.2.many])).toArray
  | "hdr.date" => textJson (httpDate (jDt (getArr j "v")))
  | "qs.parse" => docJson (parseQs F (jText (fld j "qs")))
  | "qs.quote" => textJson (quote (jText (fld j "s")))
  | "qs.unquote" => textJson (unquote (jText (fld j "s")))
  | "flat.decode" => outJson nodeJson (decode F (jCfg (fld j "cfg")) (jFields (fld j "fields")) (jDoc (fld j "doc")))
  | "http.get" =>
    match httpGet F (jCfg (fld j "cfg")) (jFields (fld j "fields")) (jText (fld j "qs")) with
    | .wsdl => Json.mkObj [("wsdl", Json.bool true)]
    | .call r => outJson nodeJson r
  | "http.get.decl" =>
    let dfs := jDFields (fld j "fields")
    match httpGet F (jCfg (fld j "cfg")) (keyedFields F none dfs) (jText (fld j "qs")) with
    | .wsdl => Json.mkObj [("wsdl", Json.bool true)]
    | .call r => outJson nodeJson (obind r fun n => .ok (finishNode (.obj 0 dfs) n))
  | "hdr.in" =>
    let env := (jArr (fld j "env")).map fun kv =>
      match kv with
      | .arr a => (jText (a[0]?.getD .null), jText (a[1]?.getD .null))
      | _ => ([], [])
    outJson nodeJson (decode F (jCfg (fld j "cfg")) (jFields (fld j "fields")) (httpHeaders env))
  | "flat.encode.shared" =>
    let fs := jFields (fld j "fields")
    Json.arr ((encodeShared F (jText (fld j "delim")) fs (jLNode (fld j "inst"))).map (fun kv =>
      Json.arr #[textJson kv.1, encValJson kv.2])).toArray
  | "flat.encode" =>
    let fs := jFields (fld j "fields")
    let inst := jNode false (.obj 0 fs) (fld j "inst")
    Json.arr ((encode (jText (fld j "delim")) fs inst).map (fun kv => Json.arr #[textJson kv.1, encValJson kv.2])).toArray
  | "http.return" =>
    let hf := jFields (fld j "hdrFields")
    let r := response F (jText (fld j "mime")) hf (jNode false (.obj 0 hf) (fld j "hdr")) (jRet (fld j "retTy") (fld j "ret"))
    Json.mkObj [("headers", Json.arr (r.1.map (fun kv => Json.arr #[textJson kv.1, textJson kv.2])).toArray),
                ("body", natsJson r.2)]
  | op => Json.mkObj [("driver_error", Json.str s!"unknown op {op}")]
end C03

def main : IO Unit := Driver.run C03.step
