/- Line-protocol driver for the C14 model (event managers, pipeline traces, specification automaton). -/
import Driver.Util
import SpyneModel.EventsSpec
import SpyneModel.Generated.Facts14
open Lean SpyneModel.Events Driver

def F := SpyneModel.Generated.facts14

def evOfName (s : String) : Event :=
  match s with
  | "method_context_created" => .created
  | "method_call" => .call
  | "method_return_object" => .returnObject
  | "method_exception_object" => .exceptionObject
  | "method_return_document" => .returnDocument
  | "method_exception_document" => .exceptionDocument
  | "method_return_string" => .returnString
  | "method_exception_string" => .exceptionString
  | "method_context_closed" => .closed
  | "before_deserialize" => .beforeDeserialize
  | "after_deserialize" => .afterDeserialize
  | "before_serialize" => .beforeSerialize
  | "after_serialize" => .afterSerialize
  | "serialize" => .serialize
  | "method_redirect" => .redirect
  | "method_redirect_exception" => .redirectException
  | "wsdl" => .wsdl
  | "wsdl_exception" => .wsdlException
  | "wsgi_call" => .wsgiCall
  | "wsgi_return" => .wsgiReturn
  | "wsgi_exception" => .wsgiException
  | "wsgi_close" => .wsgiClose
  | _ => .other

def nameOfEv : Event → String
  | .created => "method_context_created"
  | .call => "method_call"
  | .returnObject => "method_return_object"
  | .exceptionObject => "method_exception_object"
  | .returnDocument => "method_return_document"
  | .exceptionDocument => "method_exception_document"
  | .returnString => "method_return_string"
  | .exceptionString => "method_exception_string"
  | .closed => "method_context_closed"
  | .beforeDeserialize => "before_deserialize"
  | .afterDeserialize => "after_deserialize"
  | .beforeSerialize => "before_serialize"
  | .afterSerialize => "after_serialize"
  | .serialize => "serialize"
  | .redirect => "method_redirect"
  | .redirectException => "method_redirect_exception"
  | .wsdl => "wsdl"
  | .wsdlException => "wsdl_exception"
  | .wsgiCall => "wsgi_call"
  | .wsgiReturn => "wsgi_return"
  | .wsgiException => "wsgi_exception"
  | .wsgiClose => "wsgi_close"
  | .other => "other"

def kindOfName (s : String) : ExcKind := if s == "exc" then .exc else .fault

def optKind (j : Json) (k : String) : Option ExcKind :=
  match getStr j k with
  | "fault" => some .fault
  | "exc" => some .exc
  | _ => none

def stageOfName (s : String) : Stage :=
  match s with
  | "refuse" => .refuse
  | "createInDoc" => .createInDoc
  | "decompose" => .decompose
  | "genContexts" => .genContexts
  | "deserialize" => .deserialize
  | "dispatch" => .dispatch
  | "user" => .user
  | "redirect" => .redirect
  | "redirectFail" => .redirectFail
  | "genBody" => .genBody
  | "serialize" => .serialize
  | _ => .none

def outpOfName (s : String) : OutProto :=
  match s with
  | "soap11" => .soap11 | "soap12" => .soap12 | "json" => .json | "yaml" => .yaml
  | "msgpack" => .msgpack | "msgpackrpc" => .msgpackRpc | "http" => .httpRpc | _ => .xml

def sigOfName (s : String) : Sig :=
  match s with
  | "void" => .void | "multi" => .multi | "outBare" => .outBare | _ => .single

def shapeOfName (s : String) : Shape :=
  match s with
  | "void" => .void | "none" => .none | "generator" => .generator | "emptyGenerator" => .emptyGenerator
  | "ignored" => .ignored | "multi" => .multi | _ => .value

/-- registrations `[[name, h], ...]` with string event names -/
def regsS (j : Json) (k : String) : List (String × H) :=
  (getArr j k).toList.map fun p =>
    match p with
    | .arr a => ((a[0]?.bind (·.getStr?.toOption)).getD "", (a[1]?.bind (·.getNat?.toOption)).getD 0)
    | _ => ("", 0)

/-- history `[["add",name,h] | ["del",name,h] | ["clear",name] ...]` -/
def opsS (j : Json) (k : String) : List (Op String) :=
  (getArr j k).toList.map fun p =>
    match p with
    | .arr a =>
      let kind := (a[0]?.bind (·.getStr?.toOption)).getD ""
      let name := (a[1]?.bind (·.getStr?.toOption)).getD ""
      let h := (a[2]?.bind (·.getNat?.toOption)).getD 0
      if kind == "del" then .del name h else if kind == "clear" then .clear name
      else if kind == "fire" then .fire name else .add name h
    | _ => .clear ""

/-- which removals of the history raise KeyError (handler not registered at that moment) -/
def keyErrors (m : Mgr String) : List (Op String) → List Bool
  | [] => []
  | op :: ops =>
    (match op with | .del e h => m.delRaises e h | _ => false) :: keyErrors (m.applyOp op) ops

/-- manager spec `{"bases":[spec...], "regs":[[name,h]...]}`: the bases as they were when the class was
    created, then the class's own registrations -/
partial def mgrS (j : Json) : Mgr String :=
  let bases := (getArr j "bases").toList.map mgrS
  ((Mgr.inherit bases).addAll (regsS j "regs")).applyAll (opsS j "ops")

def mgrE (j : Json) : Mgr Event :=
  let m := mgrS j
  -- the manager is queried by event; registrations under names the model does not know are dropped
  fun ev => if ev = .other then [] else m (nameOfEv ev)

def getObj (j : Json) (k : String) : Json := (j.getObjVal? k).toOption.getD Json.null

def spellingOfName (s : String) : Spelling :=
  match s with
  | "_evmgr" => .evmgr | "_event_manager" => .eventManager | "_event_managers" => .eventManagers | _ => .evmgrs

def worldOf (j : Json) : World :=
  let rs : List (H × Event × ExcKind) := (getArr j "raises").toList.map fun p =>
    match p with
    | .arr a => ((a[0]?.bind (·.getNat?.toOption)).getD 0,
                 evOfName ((a[1]?.bind (·.getStr?.toOption)).getD ""),
                 kindOfName ((a[2]?.bind (·.getStr?.toOption)).getD ""))
    | _ => (0, .other, .fault)
  { app := mgrE (getObj j "app")
    meths := descriptorManagers F (spellingOfName (getStr j "spelling")) ((getArr j "meths").toList.map mgrE)
    svc := descriptorService F (getBool j "mrpcsvc") (mgrE (getObj j "svc"))
    inProt := mgrE (getObj j "inprot")
    outProt := mgrE (getObj j "outprot")
    transport := mgrE (getObj j "trans")
    raises := fun h ev => (rs.find? (fun r => r.1 = h ∧ r.2.1 = ev)).map (·.2.2) }

def lvlJson : Level → Json
  | .app => "app" | .meth i => Json.str s!"meth{i}" | .svc => "svc"
  | .inProt => "inprot" | .outProt => "outprot" | .transport => "trans"

def obsJson : Obs → Json
  | .call l h ev => Json.arr #[lvlJson l, Json.num (JsonNumber.fromNat h), Json.str (nameOfEv ev)]
  | .user => Json.arr #[Json.str "user"]

def symOfName (s : String) : Sym := if s == "user" then .user else .ev (evOfName s)

def stateJson : Q → Json
  | .done u r f => Json.mkObj [("state", "done"), ("u", Json.bool u), ("r", Json.bool r), ("f", Json.bool f)]
  | .reject => Json.mkObj [("state", "reject")]
  | _ => Json.mkObj [("state", "incomplete")]

def injOf (j : Json) : Inj := ⟨stageOfName (getStr j "stage"), kindOfName (getStr j "kind"), getBool j "inner"⟩

def step (j : Json) : Json :=
  match getStr j "op" with
  | "mgr" =>
    let m := mgrS (getObj j "mgr")
    let qs := (getArr j "query").toList.map fun q => q.getStr?.toOption.getD ""
    let spec := getObj j "mgr"
    let m0 := (Mgr.inherit ((getArr spec "bases").toList.map mgrS)).addAll (regsS spec "regs")
    Json.mkObj [("ok", Json.arr (qs.map fun q => Json.arr ((m.fire q).map fun (h : Nat) => Json.num (JsonNumber.fromNat h)).toArray).toArray),
                ("keyerr", Json.arr ((keyErrors m0 (opsS spec "ops")).map Json.bool).toArray),
                ("fires", Json.arr ((m0.runHistory (opsS spec "ops")).map fun l =>
                    Json.arr (l.map fun (h : Nat) => Json.num (JsonNumber.fromNat h)).toArray).toArray)]
  | "trace" =>
    let c : Cfg := ⟨outpOfName (getStr j "outp"), if getStr j "transport" == "wsgi" then .wsgi else .serverBase,
                    shapeOfName (getStr j "shape"), sigOfName (getStr j "sig"),
                    getBool j "presetdoc"⟩
    let w := worldOf (getObj j "world")
    let r := worldRun F c (injOf j) w
    Json.mkObj [("ok", Json.mkObj [("trace", Json.arr ((r.steps.flatMap (expand w)).map obsJson).toArray),
                                    ("escaped", Json.bool r.escaped)])]
  | "wsdl" =>
    let w := worldOf (getObj j "world")
    Json.mkObj [("ok", Json.mkObj [("trace", Json.arr (((if getBool j "fails" then F.wsdlFailSteps else F.wsdlSteps).flatMap (expand w)).map obsJson).toArray),
                                    ("escaped", Json.bool false)])]
  | "refire" =>
    let natOf (x : Json) : Nat := x.getNat?.toOption.getD 0
    let s := (getArr j "s").toList.map natOf
    let prog : List (H × List ROp) := (getArr j "prog").toList.map fun p =>
      match p with
      | .arr a => (natOf (a[0]?.getD Json.null),
          ((a[1]?.getD Json.null).getArr?.toOption.getD #[]).toList.map fun o =>
            match o with
            | .arr b => if (b[0]?.bind (·.getStr?.toOption)).getD "" == "del" then ROp.del (natOf (b[1]?.getD Json.null))
                        else ROp.add (natOf (b[1]?.getD Json.null))
            | _ => ROp.add 0)
      | _ => (0, [])
    let w := fireReentrant (progOf prog) (getNat j "fuel") s
    let nums (l : List H) := Json.arr (l.map fun (h : Nat) => Json.num (JsonNumber.fromNat h)).toArray
    Json.mkObj [("ok", Json.mkObj [("calls", nums w.calls), ("live", nums w.live), ("done", Json.bool w.next.isNone)])]
  | "accepts" =>
    let t := (getArr j "t").toList.map fun s => symOfName (s.getStr?.toOption.getD "")
    Json.mkObj [("ok", stateJson (final t))]
  | "truth" =>
    let tr := truth (injOf j) (optKind j "co") (optKind j "ro")
    Json.mkObj [("ok", Json.mkObj [("u", Json.bool tr.userRan), ("r", Json.bool tr.returned),
                                    ("f", Json.bool tr.faulted), ("serFail", Json.bool tr.serFail)])]
  | op => Json.mkObj [("driver_error", Json.str s!"unknown op {op}")]

def main : IO Unit := Driver.run step
