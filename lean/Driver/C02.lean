/- Line-protocol driver for the dict-document codec model (C02 and the dict-document parts of C04 C05 C16 C10). -/
import Driver.Util
import SpyneModel.HierEncode
import SpyneModel.HierSpec
import SpyneModel.Generated.Facts08
import SpyneModel.Generated.Facts02
open Lean SpyneModel SpyneModel.Hier Driver

def F := SpyneModel.Generated.facts08
def G0 := SpyneModel.Generated.facts02

/-- all switches at their good values (what the theorems assume); selected by `"good": true` in a query -/
def goodFacts : Facts02 :=
  { occCount := .perItem, mpNameAnyKey := true, nullComplexIsNone := true, repeatedScalarFault := true,
    leafKindFault := true, boolCoerced := true, utf8Fault := true, jsonNullDateOk := true, intFromFloat := true,
    nativeKindFault := true, binKindFault := true, rawBytesKindFault := true, nestedArrayOk := true, parseErrorsFault := true, binTextValidated := true, missingBodyFault := true,
    guardPathLocal := true, fileFormValidated := true,
    mpBytesTable := SpyneModel.Generated.facts02.mpBytesTable, mpBoolPassThrough := [], tableUtf8Fault := true,
    bytesJoinBeforeEncode := true, retagSubclassChecked := true,
    notWrappedStrKeys := true, notWrappedBytesKeys := true, nonNumberForNumber := [], noFreqKeepsValidation := true, valuesNullTestIsNone := true, attrCachesPerInstance := true }

def jText (j : Json) : Text :=
  match j with
  | .arr a => a.toList.map (fun c => match c.getNat? with | .ok n => Char.ofNat n | .error _ => '?')
  | .str s => s.toList
  | _ => []

def jNats (j : Json) : List Nat :=
  match j with
  | .arr a => a.toList.map (fun c => c.getNat?.toOption.getD 0)
  | _ => []

def jBig (j : Json) : Int :=
  match j with
  | .str s => s.toInt?.getD 0
  | .num n => n.mantissa
  | _ => 0

def jOptBig (j : Json) (k : String) : Option Int :=
  match j.getObjVal? k with
  | .ok .null => none
  | .ok v => some (jBig v)
  | .error _ => none

def jOptNat (j : Json) (k : String) : Option Nat :=
  match j.getObjVal? k with
  | .ok (.num n) => some n.mantissa.toNat
  | _ => none

def jField (j : Json) (k : String) : Json := (j.getObjVal? k).toOption.getD .null

def kindOf (s : String) : IntKind :=
  match s with
  | "i8" => .i8 | "i16" => .i16 | "i32" => .i32 | "i64" => .i64
  | "u8" => .u8 | "u16" => .u16 | "u32" => .u32 | "u64" => .u64
  | _ => .unbounded

def jOcc (j : Json) : Occ :=
  match j.getObjVal? "occ" with
  | .ok o@(.obj _) => { nillable := getBool o "nillable", minOccurs := getNat o "min", maxOccurs := jOptNat o "max" }
  | _ => {}

def jPattern (j : Json) : Option Pattern :=
  match j with
  | .obj _ =>
    some { ranges := (getArr j "ranges").toList.map (fun r =>
              match r with
              | .arr a => (Char.ofNat ((a[0]?.bind (·.getNat?.toOption)).getD 0), Char.ofNat ((a[1]?.bind (·.getNat?.toOption)).getD 0))
              | _ => ('a', 'a')),
           min := getNat j "min", max := jOptNat j "max" }
  | _ => none

partial def jTy (j : Json) : Ty :=
  let o := jOcc j
  match getStr j "k" with
  | "int" =>
    let r := jField j "r"
    .prim (.integer (kindOf (getStr j "kind")) { ge := jOptBig r "ge", gt := jOptBig r "gt", le := jOptBig r "le", lt := jOptBig r "lt" }) o
  | "bool" => .prim .boolean o
  | "str" => .prim (.unicode (getNat j "minLen") (jOptNat j "maxLen") (jPattern (jField j "pattern"))
                ((getArr j "values").toList.map jText)) o
  | "date" => .prim .date o
  | "time" => .prim .time o
  | "dt" => .prim .dateTime o
  | "dur" => .prim .duration o
  | "bytes" => .prim (.bytes (match getStr j "enc" with | "hex" => .hex | "urlsafe" => .urlsafe | _ => .base64)) o
  | "enum" => .prim (.enum ((getArr j "names").toList.map jText)) o
  | "obj" =>
    let base : Option Text := match jField j "base" with | .str s => some s.toList | _ => none
    .obj (getStr j "name").toList (getStr j "ns").toList base
      ((getArr j "fields").toList.map (fun f => match f with
        | .arr a => (jText (a[0]?.getD .null), jTy (a[1]?.getD .null))
        | _ => ([], .prim .boolean {}))) o
  | "arr" => .arr (getStr j "member").toList (jTy (jField j "elem")) o
  | _ => .prim .boolean o

def jRegistry (j : Json) : Registry :=
  match j with
  | .arr a => a.toList.map (fun c =>
      { name := (getStr c "name").toList, ns := (getStr c "ns").toList,
        base := (match jField c "base" with | .str s => some s.toList | _ => none),
        fields := (getArr c "fields").toList.map (fun f => match f with
          | .arr a => (jText (a[0]?.getD .null), jTy (a[1]?.getD .null))
          | _ => ([], .prim .boolean {})) })
  | _ => []

def nat (a : Array Json) (i : Nat) : Nat := (a[i]?.bind (·.getNat?.toOption)).getD 0

/-- first key of `cases` present in the object `j` selects the reader -/
def objCase {α} (j : Json) (dflt : α) : List (String × (Json → α)) → α
  | [] => dflt
  | (k, f) :: r => match j.getObjVal? k with | .ok v => f v | .error _ => objCase j dflt r

def pairList {α} (j : Json) (f : Json → Json → α) : List α :=
  match j with
  | .arr a => a.toList.map (fun e => match e with
      | .arr p => f (p[0]?.getD .null) (p[1]?.getD .null)
      | _ => f .null .null)
  | _ => []

def jArr (j : Json) : Array Json := match j with | .arr a => a | _ => #[]

partial def jVal (j : Json) : Val :=
  objCase j Val.none [
    ("i", fun v => .int (jBig v)),
    ("b", fun v => .bool (match v with | .bool b => b | _ => false)),
    ("s", fun v => .str (jText v)),
    ("date", fun v => let a := jArr v; .date ⟨nat a 0, nat a 1, nat a 2⟩),
    ("time", fun v => let a := jArr v; .time ⟨nat a 0, nat a 1, nat a 2, nat a 3⟩),
    ("dt", fun v => let a := jArr v; .dt ⟨⟨nat a 0, nat a 1, nat a 2⟩, ⟨nat a 3, nat a 4, nat a 5, nat a 6⟩,
        match (a[7]? : Option Json) with | some (Json.num n) => some n.mantissa | _ => none⟩),
    ("dur", fun v => .dur (jBig v)),
    ("x", fun v => .bytes (jNats v)),
    ("e", fun v => .enum (jText v)),
    ("l", fun v => .list ((jArr v).toList.map jVal)),
    ("o", fun v => let a := jArr v
       .obj (jText (a[0]?.getD .null)) (pairList (a[1]?.getD .null) (fun n x => (jText n, jVal x))))]

/-- the Python objects at the nodes of a value: `{"o": …, "id": n}` nodes with the same `n` are one object -/
partial def jIds (j : Json) : Ids :=
  objCase j Ids.anon [
    ("l", fun v => .node none ((jArr v).toList.map jIds)),
    ("o", fun v => let a := jArr v
       .node (match j.getObjVal? "id" with | .ok (Json.num n) => some n.mantissa.toNat | _ => none)
             (pairList (a[1]?.getD .null) (fun _ x => jIds x)))]

def jKey (j : Json) : Key :=
  objCase j Key.other [("s", fun v => .str (jText v)), ("x", fun v => .bytes (jNats v)), ("i", fun v => .int (jBig v))]

partial def jDoc (j : Json) : Doc :=
  objCase j Doc.null [
    ("B", fun v => .bool (match v with | .bool b => b | _ => false)),
    ("I", fun v => .int (jBig v)),
    ("F", fun v => match v with | .null => .float none | v => .float (some (jBig v))),
    ("O", fun _ => .other),
    ("N", fun _ => .nan),
    ("S", fun v => .str (jText v)),
    ("X", fun v => .bytes (jNats v)),
    ("L", fun v => .list ((jArr v).toList.map jDoc)),
    ("M", fun v => .map (pairList v (fun k x => (jKey k, jDoc x))))]

def txt (t : Text) : Json := Json.arr (t.map (fun c => Json.num c.toNat)).toArray
def nats (l : List Nat) : Json := Json.arr (l.map (fun (n : Nat) => (n : Json))).toArray
def big (i : Int) : Json := Json.str (toString i)

partial def valJson : Val → Json
  | .none => .null
  | .int i => Json.mkObj [("i", big i)]
  | .bool b => Json.mkObj [("b", .bool b)]
  | .str s => Json.mkObj [("s", txt s)]
  | .date d => Json.mkObj [("date", Json.arr #[d.y, d.m, d.d])]
  | .time t => Json.mkObj [("time", Json.arr #[t.h, t.mi, t.s, t.us])]
  | .dt x => Json.mkObj [("dt", Json.arr #[x.date.y, x.date.m, x.date.d, x.time.h, x.time.mi, x.time.s, x.time.us,
      match x.tz with | none => Json.null | some m => Json.num (JsonNumber.fromInt m)])]
  | .dur us => Json.mkObj [("dur", big us)]
  | .bytes bs => Json.mkObj [("x", nats bs)]
  | .enum n => Json.mkObj [("e", txt n)]
  | .obj c fs => Json.mkObj [("o", Json.arr #[Json.str (String.ofList c), Json.arr (fs.map (fun f => Json.arr #[Json.str (String.ofList f.1), valJson f.2])).toArray])]
  | .list vs => Json.mkObj [("l", Json.arr (vs.map valJson).toArray)]

def keyJson : Key → Json
  | .str s => Json.mkObj [("s", txt s)]
  | .bytes b => Json.mkObj [("x", nats b)]
  | .int i => Json.mkObj [("i", big i)]
  | .other => Json.mkObj [("o", 1)]

partial def docJson : Doc → Json
  | .null => .null
  | .bool b => Json.mkObj [("B", .bool b)]
  | .int i => Json.mkObj [("I", big i)]
  | .float none => Json.mkObj [("F", .null)]
  | .float (some i) => Json.mkObj [("F", big i)]
  | .other => Json.mkObj [("O", 1)]
  | .nan => Json.mkObj [("N", 1)]
  | .str s => Json.mkObj [("S", txt s)]
  | .bytes b => Json.mkObj [("X", nats b)]
  | .list ds => Json.mkObj [("L", Json.arr (ds.map docJson).toArray)]
  | .map kvs => Json.mkObj [("M", Json.arr (kvs.map (fun kv => Json.arr #[keyJson kv.1, docJson kv.2])).toArray)]

def jCfg (j : Json) : Cfg :=
  { proto := (match getStr j "proto" with | "yaml" => .yaml | "msgpack" => .msgpack | "msgpackrpc" => .msgpackRpc | _ => .json),
    validator := (match jField j "validator" with | .str "soft" => .soft | _ => .none),
    ignoreWrappers := getBool j "iw",
    complexAs := (match getStr j "cas" with | "list" => .list | _ => .dict),
    polymorphic := getBool j "poly",
    mpRaw := getBool j "raw",
    mpBinType := (match jField j "bin" with | .bool b => b | _ => true),
    notWrapped := (match jField j "nw" with | .arr a => a.toList.map jText | _ => []),
    noFreq := (match jField j "nofreq" with | .arr a => a.toList.map jText | _ => []) }

def resJson {α} (f : α → Json) : Res α → Json
  | .ok a false => Json.mkObj [("ok", f a)]
  | .ok _ true => Json.mkObj [("leak", .bool true)]
  | .fault => Json.mkObj [("fault", Json.str "Client")]
  | .crash e => Json.mkObj [("crash", Json.str e)]

def step (j : Json) : Json :=
  let cfg := jCfg (jField j "cfg")
  let R := jRegistry (jField j "reg")
  let G := if getBool j "good" then goodFacts else G0
  match getStr j "op" with
  | "request" => resJson valJson (decodeRequest F G cfg R (jTy (jField j "ty")) (jDoc (jField j "doc")))
  | "server" =>
    let pj := jField j "parsed"
    let p : Parsed := match pj.getObjVal? "err" with
      | .ok (.str "syntax") => .syntaxError
      | .ok (.str c) => .otherError c
      | _ => .doc (jDoc (jField pj "doc"))
    resJson valJson (serverRun F G cfg R (jTy (jField j "ty")) p)
  | "decode" => resJson valJson (decode F G cfg R (jTy (jField j "ty")) (jDoc (jField j "doc")))
  | "encode" => Json.mkObj [("ok", docJson (encodeIds F cfg R G (jTy (jField j "ty")) (jVal (jField j "val")) (jIds (jField j "val"))))]
  | "response" => Json.mkObj [("ok", docJson (encodeResponseIds F cfg R G (getStr j "method").toList (jTy (jField j "ty"))
                                                (jVal (jField j "val")) (jIds (jField j "val"))))]
  | "readresponse" => resJson valJson (decodeResponse F G cfg R (getStr j "method").toList (jTy (jField j "ty")) (jDoc (jField j "doc")))
  | "acyclic" => Json.mkObj [("ok", .bool (acyclic [] (jIds (jField j "val"))))]
  | "conforms" => Json.mkObj [("ok", .bool (conforms (jTy (jField j "ty")) (jVal (jField j "val"))))]
  | "utf8enc" => Json.mkObj [("ok", nats (utf8Enc (jText (jField j "s"))))]
  | "utf8dec" => (match utf8Dec (jNats (jField j "b")) with
                  | some t => Json.mkObj [("ok", txt t)]
                  | none => Json.mkObj [("fault", Json.str "Client")])
  | op => Json.mkObj [("driver_error", Json.str s!"unknown op {op}")]

def main : IO Unit := Driver.run step
