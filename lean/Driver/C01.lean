/- Line-protocol driver for the XML codec block (C01 and the XML parts of C04 C05 C16 C10). -/
import Driver.XmlCodec
def main : IO Unit := Driver.run XmlCodec.step
