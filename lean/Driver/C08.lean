/- Line-protocol driver for the C08 model (primitive text forms). -/
import Driver.Util
import SpyneModel.Prim
import SpyneModel.Binary
import SpyneModel.Generated.Facts08
open Lean SpyneModel Driver

def F := SpyneModel.Generated.facts08

def kindOf (s : String) : IntKind :=
  match s with
  | "i8" => .i8 | "i16" => .i16 | "i32" => .i32 | "i64" => .i64
  | "u8" => .u8 | "u16" => .u16 | "u32" => .u32 | "u64" => .u64
  | _ => .unbounded

def outJson {α} (f : α → Json) : Outcome α → Json
  | .ok a => Json.mkObj [("ok", f a)]
  | .fault => Json.mkObj [("fault", Json.str "Client.ValidationError")]
  | .crash e => Json.mkObj [("crash", Json.str e)]

def dateJson (d : Date) : Json := Json.arr #[d.y, d.m, d.d]
def timeJson (t : Time) : Json := Json.arr #[t.h, t.mi, t.s, t.us]
def dtJson (x : DateTime) : Json :=
  Json.arr #[x.date.y, x.date.m, x.date.d, x.time.h, x.time.mi, x.time.s, x.time.us,
    match x.tz with | none => Json.null | some m => Json.num (JsonNumber.fromInt m)]

def getDate (a : Array Json) : Date :=
  let n (i : Nat) : Nat := match a[i]? with | some j => (j.getNat?.toOption.getD 0) | none => 0
  ⟨n 0, n 1, n 2⟩
def getTime (a : Array Json) (o : Nat) : Time :=
  let n (i : Nat) : Nat := match a[i]? with | some j => (j.getNat?.toOption.getD 0) | none => 0
  ⟨n o, n (o+1), n (o+2), n (o+3)⟩

def getNats (j : Json) (k : String) : List Nat :=
  (getArr j k).toList.map (fun c => c.getNat?.toOption.getD 0)
def natsJson (l : List Nat) : Json := Json.arr (l.map (fun (n : Nat) => (n : Json))).toArray
def optJson {α} (f : α → Json) : Option α → Json
  | some a => Json.mkObj [("ok", f a)]
  | none => Json.mkObj [("fault", Json.str "Client.ValidationError")]

def step (j : Json) : Json :=
  match getStr j "op" with
  | "int.to" => Json.mkObj [("ok", textJson (intToText (getBigInt j "v")))]
  | "int.from" => outJson bigIntJson (intFromText F (kindOf (getStr j "kind")) (getText j "s"))
  | "bool.to" => Json.mkObj [("ok", textJson (boolToText (getBool j "v")))]
  | "bool.from" => outJson (fun b => Json.bool b) (boolFromText F (getText j "s"))
  | "offset.to" => Json.mkObj [("ok", textJson (fmtOffset (getInt j "v")))]
  | "date.to" => Json.mkObj [("ok", textJson (isoDate (getDate (getArr j "v"))))]
  | "date.from" => outJson dateJson (dateFromText F (getText j "s"))
  | "time.to" => Json.mkObj [("ok", textJson (isoTime (getTime (getArr j "v") 0)))]
  | "time.from" => outJson timeJson (timeFromText F (getText j "s"))
  | "datetime.to" =>
    let a := getArr j "v"
    let tz : Option Int := match a[7]? with
      | some (Json.num n) => some n.mantissa
      | _ => none
    Json.mkObj [("ok", textJson (isoDateTime ⟨getDate a, getTime a 3, tz⟩))]
  | "datetime.from" => outJson dtJson (dateTimeFromText F (getText j "s"))
  | "dur.to" => Json.mkObj [("ok", textJson (durToText F (getBigInt j "v")))]
  | "dur.from" => outJson bigIntJson (durFromText F (getText j "s"))
  | "hex.to" => Json.mkObj [("ok", textJson (hexenc (getNats j "v")))]
  | "hex.from" => optJson natsJson (hexdec (getText j "s"))
  | "b64.to" => Json.mkObj [("ok", textJson (b64enc (getBool j "url") (getNats j "v")))]
  | "b64.from" => optJson natsJson (b64dec (getBool j "url") (getText j "s"))
  | op => Json.mkObj [("driver_error", Json.str s!"unknown op {op}")]

def main : IO Unit := Driver.run step
