/- Shared helpers for the JSON line-protocol drivers. -/
import Lean.Data.Json
import SpyneModel.Text
open Lean

namespace Driver

def getStr (j : Json) (k : String) : String :=
  match j.getObjValAs? String k with | .ok s => s | .error _ => ""

def getNat (j : Json) (k : String) : Nat :=
  match j.getObjValAs? Nat k with | .ok s => s | .error _ => 0

def getInt (j : Json) (k : String) : Int :=
  match j.getObjValAs? Int k with | .ok s => s | .error _ => 0

def getBool (j : Json) (k : String) : Bool :=
  match j.getObjValAs? Bool k with | .ok s => s | .error _ => false

def getArr (j : Json) (k : String) : Array Json :=
  match j.getObjVal? k with | .ok (.arr a) => a | _ => #[]

/-- text is transmitted as a list of code points -/
def getText (j : Json) (k : String) : SpyneModel.Text :=
  (getArr j k).toList.map (fun c => match c.getNat? with | .ok n => Char.ofNat n | .error _ => '?')

def textJson (t : SpyneModel.Text) : Json := Json.arr (t.map (fun c => Json.num c.toNat)).toArray

/-- big integers travel as decimal strings -/
def getBigInt (j : Json) (k : String) : Int :=
  match j.getObjVal? k with
  | .ok (.str s) => s.toInt?.getD 0
  | .ok (.num n) => n.mantissa
  | _ => 0

def bigIntJson (i : Int) : Json := Json.str (toString i)

partial def loop (h : IO.FS.Stream) (out : IO.FS.Stream) (step : Json → Json) : IO Unit := do
  let line ← h.getLine
  if line.isEmpty then return ()
  let l := line.trimAscii.toString
  if l.isEmpty then loop h out step else
  match Json.parse l with
  | .ok j => out.putStrLn (step j).compress
  | .error e => out.putStrLn (Json.mkObj [("driver_error", Json.str e)]).compress
  loop h out step

def run (step : Json → Json) : IO Unit := do
  let stdin ← IO.getStdin
  let stdout ← IO.getStdout
  loop stdin stdout step
  stdout.flush

end Driver
