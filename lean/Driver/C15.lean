/- Line-protocol driver for the C15 model (derivation histories over a pool of models). -/
import Driver.Util
import SpyneModel.DeriveApply
import SpyneModel.Generated.Facts15
open Lean SpyneModel.Derive Driver

def F15 := SpyneModel.Generated.facts15

def avalJson : AVal → Json
  | .none => Json.null
  | .bool b => Json.bool b
  | .int i => Json.mkObj [("i", Json.str (toString i))]
  | .inf => Json.mkObj [("inf", Json.bool true)]
  | .ninf => Json.mkObj [("ninf", Json.bool true)]
  | .str s => Json.mkObj [("s", Json.str s)]
  | .eset => Json.mkObj [("eset", Json.bool true)]
  | .ints l => Json.mkObj [("l", Json.arr (l.map (fun i => Json.mkObj [("i", Json.str (toString i))])).toArray)]
  | .strs l => Json.mkObj [("l", Json.arr (l.map (fun s => Json.mkObj [("s", Json.str s)])).toArray)]

def jsonScalar (j : Json) : AVal :=
  match j with
  | Json.null => .none
  | Json.bool b => .bool b
  | _ =>
    match j.getObjVal? "i" with
    | .ok (Json.str s) => .int (s.toInt?.getD 0)
    | _ =>
    match j.getObjVal? "s" with
    | .ok (Json.str s) => .str s
    | _ =>
    match j.getObjVal? "inf" with
    | .ok _ => .inf
    | _ =>
    match j.getObjVal? "ninf" with
    | .ok _ => .ninf
    | _ =>
    match j.getObjVal? "eset" with
    | .ok _ => .eset
    | _ => .none

def jsonAval (j : Json) : AVal :=
  match j.getObjVal? "l" with
  | .ok (Json.arr a) =>
    let items := a.toList.map jsonScalar
    if items.all (fun v => match v with | .int _ => true | _ => false) then
      .ints (items.filterMap (fun v => match v with | .int i => some i | _ => none))
    else .strs (items.filterMap (fun v => match v with | .str s => some s | _ => none))
  | _ => jsonScalar j

def jsonKw (j : Json) : Kw :=
  match j with
  | Json.arr a => a.toList.filterMap (fun p => match p with
      | Json.arr #[Json.str k, v] => some (k, jsonAval v)
      | _ => none)
  | _ => []

def optKw (j : Json) (k : String) : Option Kw :=
  match j.getObjVal? k with
  | .ok Json.null => none
  | .ok v => some (jsonKw v)
  | .error _ => none

def optStr (j : Json) (k : String) : Option String :=
  match j.getObjVal? k with
  | .ok (Json.str s) => some s
  | _ => none

def optNat (j : Json) (k : String) : Option Nat :=
  match j.getObjValAs? Nat k with
  | .ok n => some n
  | .error _ => none

def kindStr : Kind → String
  | .number => "number" | .unicode => "unicode" | .bytes => "bytes" | .simple => "simple"
  | .complex => "complex" | .array => "array" | .iterable => "iterable" | .xmlattr => "xmlattr"

def tnJson : Option String → Json
  | none => Json.mkObj [("empty", Json.bool true)]
  | some s => Json.mkObj [("s", Json.str s)]

partial def obsJson : Obs → Json
  | .missing => Json.str "missing"
  | .node kind tn ns attrs verd orig fields ext flat col subs =>
    Json.mkObj [("kind", Json.str (kindStr kind)), ("tn", tnJson tn),
      ("ns", match ns with | some s => Json.str s | none => Json.null),
      ("attrs", Json.arr (attrs.map (fun p => Json.arr #[Json.str p.1, avalJson p.2])).toArray),
      ("v", Json.arr (verd.map Json.bool).toArray),
      ("orig", match orig with | some t => tnJson t | none => Json.null),
      ("fields", Json.arr (fields.map (fun p => Json.arr #[Json.str p.1, obsJson p.2])).toArray),
      ("ext", match ext with | some e => obsJson e | none => Json.null),
      ("flat", Json.arr (flat.map Json.str).toArray),
      ("col", match col with
        | some d => Json.arr (d.map (fun p => Json.arr #[Json.str p.1, avalJson p.2])).toArray
        | none => Json.null),
      ("subs", match subs with
        | some l => Json.arr (l.map tnJson).toArray
        | none => Json.null)]

/-- pool indices -> class ids -/
def decodeOp (pool : Array Nat) (j : Json) : Option Op :=
  let cid (k : String) : Option Nat := (optNat j k).bind (fun i => pool[i]?)
  match getStr j "k" with
  | "cust" => (cid "src").map (fun s => Op.customize s (jsonKw (j.getObjValD "kw"))
      (match j.getObjVal? "ca" with
        | .ok (Json.arr a) => some (a.toList.filterMap (fun p => match p with
            | Json.arr #[Json.str n, v] => some (n, jsonKw v)
            | _ => none))
        | _ => none)
      (optKw j "caa") (optNat j "prot")
      (match j.getObjVal? "nx" with
        | .ok (Json.arr a) => some (a.toList.filterMap (fun p => match p with
            | Json.arr #[Json.str n, v] => some (n, jsonKw v)
            | _ => none))
        | _ => none)
      (optKw j "sa"))
  | "array" => (cid "src").map (fun s => Op.array s (optStr j "member") (jsonKw (j.getObjValD "kw"))
      (getBool j "flat") (getBool j "iter"))
  | "mand" => (cid "src").map Op.mandatory
  | "sub" =>
    let base : Option (Option Nat) := match j.getObjVal? "base" with
      | .ok Json.null => some none
      | .error _ => some none
      | .ok _ => (cid "base").map some
    let fields := (getArr j "fields").toList.filterMap (fun p => match p with
      | Json.arr #[Json.str n, Json.num t] => (pool[t.mantissa.toNat]?).map (fun c => (n, c))
      | _ => none)
    let perm := (getArr j "perm").toList.filterMap (fun p => p.getNat?.toOption)
    let mixins := (getArr j "mixins").toList.filterMap (fun p => (p.getNat?.toOption).bind (fun i => pool[i]?))
    base.map (fun b => Op.subclass b (getStr j "name") (optStr j "ns") fields perm (optKw j "attrs") mixins
      (getBool j "asMixin"))
  | "append" => (cid "c").bind (fun c => (cid "t").map (fun t => Op.append c (getStr j "name") t))
  | "insert" => (cid "c").bind (fun c => (cid "t").map (fun t => Op.insert c (getNat j "idx") (getStr j "name") t))
  | "xmlattr" => (cid "src").map Op.xmlattr
  | _ => none

def opFuel : Nat := 100000
def obsFuel : Nat := 41

structure St where
  h : Heap
  pool : Array Nat
  last : Array String      -- last reported snapshot per pool slot
  out : Array Json

def snapshotDelta (st : St) : St × Json := Id.run do
  let mut last := st.last
  let mut delta : Array Json := #[]
  for i in [0:st.pool.size] do
    let o := obsJson (deepObs F15 obsFuel st.h st.pool[i]!)
    let s := o.compress
    if i < last.size then
      if last[i]! != s then
        delta := delta.push (Json.arr #[Json.num i, o])
        last := last.set! i s
    else
      delta := delta.push (Json.arr #[Json.num i, o])
      last := last.push s
  ({ st with last := last }, Json.arr delta)

def runHistory (j : Json) : Json := Id.run do
  let nb := (getNat j "bases")
  let mut st : St := { h := initHeap F15, pool := (List.range nb).toArray, last := #[], out := #[] }
  let (st0, d0) := snapshotDelta st
  st := st0
  let mut steps : Array Json := #[Json.mkObj [("res", Json.str "init"), ("delta", d0)]]
  for oj in getArr j "ops" do
    match decodeOp st.pool oj with
    | none =>
      steps := steps.push (Json.mkObj [("res", Json.str "err:decode"), ("delta", Json.arr #[])])
    | some op =>
      let r := apply F15 opFuel st.h op
      let (res, pool) := match r with
        | .ok _ (some n) => ("ok", st.pool.push n)
        | .ok _ none => ("ok", st.pool)
        | .err _ e => ("err:" ++ e, st.pool)
      st := { st with h := r.heap, pool := pool }
      let (st1, d) := snapshotDelta st
      st := st1
      steps := steps.push (Json.mkObj [("res", Json.str res), ("delta", d),
        ("prots", Json.arr (st.h.prots.map (fun d => Json.arr (d.map (fun p => Json.arr #[Json.str p.1, avalJson p.2])).toArray)).toArray)])
  return Json.mkObj [("steps", Json.arr steps)]

def step (j : Json) : Json :=
  match getStr j "op" with
  | "run" => runHistory j
  | op => Json.mkObj [("driver_error", Json.str s!"unknown op {op}")]

def main : IO Unit := Driver.run step
