/- Line-protocol driver entry for C10 (XML side; the dict-document side may add its own ops). -/
import Driver.XmlCodec
def main : IO Unit := Driver.run XmlCodec.step
