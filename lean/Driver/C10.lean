/- Line-protocol driver for the C10 funnel model (SpyneModel/Hostile.lean) on the regenerated facts. -/
import Driver.Util
import SpyneModel.Hostile
import SpyneModel.Generated.Facts10
open Lean SpyneModel.Hostile Driver

def F10 := SpyneModel.Generated.facts10

def getObj (j : Json) (k : String) : Json :=
  match j.getObjVal? k with | .ok v => v | .error _ => Json.null

def strList (j : Json) (k : String) : List String :=
  (getArr j k).toList.map (fun c => match c.getStr? with | .ok s => s | .error _ => "")

def getExc (j : Json) : Exc := ⟨getStr j "name", strList j "mro"⟩

def protoOf : String → Proto
  | "xml" => .xml | "soap11" => .soap11 | "soap12" => .soap12 | "json" => .json | "yaml" => .yaml
  | "msgpack" => .msgpack | "msgpackRpc" => .msgpackRpc | _ => .httpRpc

def parseOf (j : Json) (k : String) : ParseResult :=
  match j.getObjVal? k with
  | .ok (.str _) => .doc
  | .ok v =>
    (match v.getObjVal? "decodeExc" with
     | .ok e => .decodeExc (getExc e)
     | .error _ =>
       match v.getObjVal? "parseExc" with
       | .ok e => .parseExc (getExc e)
       | .error _ => .doc)
  | .error _ => .doc

def codecOfJson (j : Json) (k : String) : Codec :=
  match j.getObjVal? k with
  | .ok (.str _) => .ok
  | .ok v =>
    (match v.getObjVal? "fault" with
     | .ok (.str c) => .fault c
     | _ =>
       match v.getObjVal? "crash" with
       | .ok e => .crash (getExc e)
       | .error _ => .ok)
  | .error _ => .ok

def famOf : String → PFam | "soap" => .soap | "http" => .http | _ => .plain
def methodOf : String → PMethod | "post" => .post | "get" => .get | _ => .other
def ctypeOf : String → PCtype
  | "absent" => .absent | "proper" => .proper | "garbage" => .garbage | "multipartNoBoundary" => .multipartNoBoundary
  | "multipartBoundary" => .multipartBoundary
  | _ => .otherType
def lenOf : String → PLen
  | "absent" => .absent | "empty" => .empty | "exact" => .exact | "short" => .short | "long" => .long
  | "overMax" => .overMax | "negative" => .negative | "nonNumeric" => .nonNumeric | "float" => .float | "huge" => .huge
  | "padded" => .padded | _ => .plus

def keyOf (j : Json) : PreKey :=
  match (getArr j "key").toList.map (fun c => match c.getStr? with | .ok s => s | .error _ => "") with
  | [f, m, c, l] => ⟨famOf f, methodOf m, ctypeOf c, lenOf l⟩
  | _ => ⟨.plain, .post, .proper, .exact⟩

def famName (c : String) : String := if isClient c then "client" else "server"

def step (j : Json) : Json :=
  match getStr j "op" with
  | "funnel" =>
    let q : Req := { proto := protoOf (getStr j "proto"), parse := parseOf j "parse", reparse := parseOf j "reparse",
                     dispatch := codecOfJson j "dispatch", deser := codecOfJson j "deser" }
    if getStr j "transport" == "wsgi" then
      match runWsgi F10 (keyOf j) q with
      | .ok s n => Json.mkObj [("resp", "ok"), ("called", Json.num (n : Nat)), ("status", Json.num ((s / 100 : Nat) : Nat))]
      | .fault c s n => Json.mkObj [("resp", Json.str (famName c)), ("called", Json.num (n : Nat)), ("status", Json.num ((s / 100 : Nat) : Nat))]
      | .escape _ => Json.mkObj [("escape", true)]
    else
      match runBase F10 q with
      | .ok n => Json.mkObj [("resp", "ok"), ("called", Json.num (n : Nat))]
      | .fault c n => Json.mkObj [("resp", Json.str (famName c)), ("called", Json.num (n : Nat))]
      | .escape _ => Json.mkObj [("escape", true)]
  | op => Json.mkObj [("driver_error", Json.str s!"unknown op {op}")]

def main : IO Unit := Driver.run step
