/- Line-protocol driver for the C17 model (XML parser configuration, abstract front end, request path). -/
import Driver.Util
import SpyneModel.XmlParserCfg
import SpyneModel.Generated.Facts17
open Lean SpyneModel SpyneModel.XmlCfg Driver

def F17 := SpyneModel.Generated.facts17

def jArr (j : Json) : Array Json := match j with | .arr a => a | _ => #[]
def jNat (j : Json) : Nat := match j.getNat? with | .ok n => n | .error _ => 0
def jStr (j : Json) : String := match j.getStr? with | .ok s => s | .error _ => ""
def jText (j : Json) : Text := (jArr j).toList.map fun c => Char.ofNat (jNat c)
def jIdx (j : Json) (i : Nat) : Json := (jArr j)[i]?.getD Json.null
def jField (j : Json) (k : String) : Json := match j.getObjVal? k with | .ok v => v | .error _ => Json.null

def resolveOf (s : String) : Resolve :=
  match s with | "off" => .off | "internal" => .internal | _ => .all
def resolveStr : Resolve → String | .off => "off" | .internal => "internal" | .all => "all"

def kwOf (j : Json) : ParserKw where
  attributeDefaults := getBool j "attribute_defaults"
  dtdValidation := getBool j "dtd_validation"
  loadDtd := getBool j "load_dtd"
  noNetwork := getBool j "no_network"
  nsClean := getBool j "ns_clean"
  recover := getBool j "recover"
  removeBlankText := getBool j "remove_blank_text"
  removeComments := getBool j "remove_comments"
  removePis := getBool j "remove_pis"
  stripCdata := getBool j "strip_cdata"
  resolveEntities := resolveOf (getStr j "resolve_entities")
  hugeTree := getBool j "huge_tree"
  compact := getBool j "compact"

def argsOf (j : Json) : CtorArgs where
  attributeDefaults := getBool j "attribute_defaults"
  dtdValidation := getBool j "dtd_validation"
  loadDtd := getBool j "load_dtd"
  noNetwork := getBool j "no_network"
  nsClean := getBool j "ns_clean"
  recover := getBool j "recover"
  removeBlankText := getBool j "remove_blank_text"
  removePis := getBool j "remove_pis"
  stripCdata := getBool j "strip_cdata"
  resolveEntities := resolveOf (getStr j "resolve_entities")
  hugeTree := getBool j "huge_tree"
  compact := getBool j "compact"

def kwJson (k : ParserKw) : Json := Json.mkObj [
  ("attribute_defaults", k.attributeDefaults), ("dtd_validation", k.dtdValidation),
  ("load_dtd", k.loadDtd), ("no_network", k.noNetwork), ("ns_clean", k.nsClean),
  ("recover", k.recover), ("remove_blank_text", k.removeBlankText),
  ("remove_comments", k.removeComments), ("remove_pis", k.removePis),
  ("strip_cdata", k.stripCdata), ("resolve_entities", Json.str (resolveStr k.resolveEntities)),
  ("huge_tree", k.hugeTree), ("compact", k.compact)]

def schemeOf (s : String) : Scheme := match s with | "http" => .http | "ftp" => .ftp | _ => .file
def schemeStr : Scheme → String | .file => "file" | .http => "http" | .ftp => "ftp"
def uriOf (j : Json) : Uri := ⟨schemeOf (jStr (jIdx j 0)), jNat (jIdx j 1)⟩
def uriJson (u : Uri) : Json := Json.arr #[Json.str (schemeStr u.scheme), Json.num u.res]

def pieceOf (j : Json) : Piece :=
  match j.getObjVal? "r" with
  | .ok n => .ref (jNat n)
  | .error _ => .lit (jText (jField j "l"))
def piecesOf (j : Json) : List Piece := (jArr j).toList.map pieceOf

def entDefOf (j : Json) : EntDef :=
  match j.getObjVal? "ext" with
  | .ok u => .external (uriOf u)
  | .error _ => .internal (piecesOf (jField j "int"))
def declsOf (j : Json) : Decls := (jArr j).toList.map fun d => (jNat (jIdx d 0), entDefOf (jIdx d 1))

def dtdOf (j : Json) : Option Dtd :=
  match j with
  | .null => none
  | _ => some ⟨(match jField j "sub" with | .null => none | u => some (uriOf u)),
               declsOf (jField j "ents"), (jArr (jField j "pe")).toList.map uriOf⟩

def tokOf (j : Json) : Tok :=
  match j with
  | .str _ => .close
  | _ =>
    match j.getObjVal? "o" with
    | .ok tag => .open (jStr tag).toList
        ((jArr (jField j "a")).toList.map fun a => ((jStr (jIdx a 0)).toList, piecesOf (jIdx a 1)))
    | .error _ =>
      match j.getObjVal? "r" with
      | .ok n => .ref (jNat n)
      | .error _ => .text (jText (jField j "t"))

def docOf (j : Json) : Doc :=
  ⟨dtdOf (jField j "dtd"), (jArr (jField j "body")).toList.map tokOf, jNat (jField j "size")⟩

def envOf (j : Json) : Env :=
  let pres := (jArr (jField j "present")).toList.map uriOf
  let txt := (jArr (jField j "text")).toList.map fun e => (uriOf e, jText (jIdx e 2))
  let dcl := (jArr (jField j "decls")).toList.map fun e => (uriOf e, declsOf (jIdx e 2))
  { present := fun u => pres.contains u
    text := fun u => match txt.find? (fun e => e.1 == u) with | some e => e.2 | none => []
    decls := fun u => match dcl.find? (fun e => e.1 == u) with | some e => e.2 | none => [] }

def otokJson : OTok → Json
  | .open tag as => Json.mkObj [("o", Json.str (String.ofList tag)),
      ("a", Json.arr (as.map fun kv => Json.arr #[Json.str (String.ofList kv.1), textJson kv.2.1]).toArray)]
  | .close => Json.str "c"
  | .text t => Json.mkObj [("t", textJson t)]
  | .ent n => Json.mkObj [("e", Json.num n)]

def errStr : Err → String
  | .undeclared => "undeclared" | .extInAttr => "extInAttr" | .entDepth => "entDepth"
  | .amplification => "amplification" | .depth => "depth" | .netBlocked => "netBlocked"
  | .malformed => "malformed"

def fetchJson (f : List Uri) : Json := Json.arr (f.map uriJson).toArray

def presultJson (r : PResult) : Json :=
  match r.out with
  | .ok t => Json.mkObj [("ok", Json.arr ((normOut t).map otokJson).toArray), ("fetch", fetchJson r.fetches)]
  | .err e => Json.mkObj [("err", Json.str (errStr e)), ("fetch", fetchJson r.fetches)]

def validatorOf (s : String) : Validator := match s with | "soft" => .soft | "lxml" => .lxml | _ => .none
def protoOf (s : String) : Proto := match s with | "soap11" => .soap11 | "soap12" => .soap12 | _ => .xml
def trOf (s : String) : Transport := match s with | "wsgi" => .wsgi | _ => .server

def outcomeJson (r : Outcome (List OTok) × List Uri) : Json :=
  match r.1 with
  | .ok t => Json.mkObj [("ok", Json.arr ((normOut t).map otokJson).toArray), ("fetch", fetchJson r.2)]
  | .fault c => Json.mkObj [("fault", Json.str c), ("fetch", fetchJson r.2)]
  | .crash e => Json.mkObj [("crash", Json.str e), ("fetch", fetchJson r.2)]

def kindOf17 (s : String) : Kind :=
  match s with
  | "arrayItem" => .arrayItem | "nestedMember" => .nestedMember | "xmlData" => .xmlData
  | "anyDictLeaf" => .anyDictLeaf | "anyXml" => .anyXml | "anyHtml" => .anyHtml
  | "multiMember" => .multiMember | "integer" => .integer | "byteArray" => .byteArray
  | "enumValue" => .enumValue | "iterableItem" => .iterableItem | "headerMember" => .headerMember
  | "hrefTarget" => .hrefTarget | _ => .unicode

/-- what user code receives for the leaf `tag` of a request parsed with `kw` -/
def deliverJson (j : Json) : Json :=
  let kw := kwOf (jField j "kw")
  let env := envOf (jField j "env")
  let doc := docOf (jField j "doc")
  match (parse F17.lib kw env doc).out with
  | .err e => Json.mkObj [("err", Json.str (errStr e))]
  | .ok o =>
    let D : Decls := match doc.dtd with | some d => d.ents | none => []
    let c : Cfg := ⟨F17.lib, kw, env, D, false, doc.size⟩
    Json.mkObj [("ok", textJson (deliverLeaf (F17.deliver (kindOf17 (getStr j "kind"))) c
      (contentOf (getStr j "tag").toList o)))]

def step (j : Json) : Json :=
  match getStr j "op" with
  | "kwargs" =>
    kwJson (parserKwargsAtRequest F17 (protoOf (getStr j "proto")) (validatorOf (getStr j "validator")) (argsOf (jField j "args")))
  | "parse" => presultJson (parse F17.lib (kwOf (jField j "kw")) (envOf (jField j "env")) (docOf (jField j "doc")))
  | "deliver" => deliverJson j
  | "handle" =>
    let rq := jField j "req"
    outcomeJson (createInDocument F17 (protoOf (getStr j "proto")) (trOf (getStr j "tr")) (kwOf (jField j "kw"))
      (envOf (jField j "env")) ⟨docOf (jField rq "doc"), getBool rq "multipart", getBool rq "unicode_decl"⟩)
  | op => Json.mkObj [("driver_error", Json.str s!"unknown op {op}")]

def main : IO Unit := Driver.run step
