/- Line-protocol driver for the C06 model (published XML Schema: generator, compiles, reference validator). -/
import Driver.XmlCodec
import SpyneModel.SchemaSpec
import SpyneModel.Generated.Facts06
open Lean SpyneModel SpyneModel.Xml SpyneModel.Schema Driver XmlCodec

namespace C06

def xsNs : String := "http://www.w3.org/2001/XMLSchema"

def appOf (j : Json) : App :=
  { facts := SpyneModel.Generated.facts06,
    leaf := F,
    values := (getArr j "values").toList.map (fun e =>
      match e with
      | .arr #[p, .arr vs] => (primOf p, vs.toList.map valOf)
      | _ => (.boolean, [])),
    iface := ifaceOf (getObj j "iface"),
    enumKeys := (getArr j "enums").toList.map (fun e =>
      match e with
      | .arr #[.arr names, .str ns, .str tn] =>
        (names.toList.map (fun n => match n with | .str s => s.toList | o => cpsOf o), (ns.toList, tn.toList))
      | _ => ([], ([], []))) }

def keyJson (k : Key) : Json := Json.arr #[strJson k.1, strJson k.2]

def refJson : TypeRef → Json
  | .builtin b => Json.arr #[Json.str xsNs, strJson b.name]
  | .named k => keyJson k

def intJ (i : Int) : Json := Json.str (toString i)

def facetJson : Facet → Json
  | .enumeration v => Json.arr #["enumeration", textJson v]
  | .length n => Json.arr #["length", intJ n]
  | .minLength n => Json.arr #["minLength", intJ n]
  | .maxLength n => Json.arr #["maxLength", intJ n]
  | .pattern p => Json.arr #["pattern", textJson (patternText p)]
  | .minExclusive i => Json.arr #["minExclusive", intJ i]
  | .minInclusive i => Json.arr #["minInclusive", intJ i]
  | .maxExclusive i => Json.arr #["maxExclusive", intJ i]
  | .maxInclusive i => Json.arr #["maxInclusive", intJ i]

def occJson (o : Occ) : Json :=
  Json.arr #[natJ o.minOccurs, (match o.maxOccurs with | some m => natJ m | none => Json.null), Json.bool o.nillable]

def particleJson (p : Particle) : Json := Json.arr #[strJson p.name, refJson p.type, occJson p.occ]

def schemaJson (S : Schema) : Json :=
  Json.mkObj [
    ("tns", strJson S.tns),
    ("simple", Json.arr (S.simple.map (fun e =>
      Json.arr #[keyJson e.1, strJson e.2.base.name, Json.arr (e.2.facets.map facetJson).toArray])).toArray),
    ("complex", Json.arr (S.complex.map (fun e =>
      Json.arr #[keyJson e.1, (match e.2.base with | some b => keyJson b | none => Json.null),
                 Json.arr (e.2.particles.map particleJson).toArray])).toArray),
    ("elements", Json.arr (S.elements.map (fun e => Json.arr #[keyJson e.1, keyJson e.2])).toArray),
    ("imports", Json.arr (S.imports.map (fun e => Json.arr #[strJson e.1, strJson e.2])).toArray)]

def builtinOfName (s : String) : Builtin :=
  match s with
  | "string" => .string | "boolean" => .boolean | "integer" => .integer .unbounded
  | "byte" => .integer .i8 | "short" => .integer .i16 | "int" => .integer .i32 | "long" => .integer .i64
  | "unsignedByte" => .integer .u8 | "unsignedShort" => .integer .u16 | "unsignedInt" => .integer .u32
  | "unsignedLong" => .integer .u64 | "date" => .date | "time" => .time | "dateTime" => .dateTime
  | "duration" => .duration | "hexBinary" => .hexBinary | _ => .base64Binary

def softCfg : Cfg := { validator := .soft, polymorphic := false, parseXsiType := true }

/-- the switches of xml.py as measured by THIS run (the shared Generated/Facts01.lean may be rewritten
    by a concurrent check of another tree) -/
def factsXmlOf (j : Json) : FactsXml :=
  match j.getObjVal? "x" with
  | .ok x =>
    { nilRule := (match getStr x "nilRule" with | "xsdBoolean" => .xsdBoolean | "anyNonEmpty" => .anyNonEmpty | _ => .other),
      xsiTypeCheck := getBool x "xsiTypeCheck", childAttrGuard := getBool x "childAttrGuard",
      emptyStringText := getBool x "emptyStringText",
      -- the streamed emission path is not exercised by C06 (documents come from the tree path)
      streamSameTree := (match x.getObjVal? "streamSameTree" with | .ok (Json.bool b) => b | _ => X.streamSameTree) }
  | .error _ => X

def step (j : Json) : Json :=
  match getStr j "op" with
  | "gen" =>
    let A := appOf j
    let S := gen A
    Json.mkObj [("schema", schemaJson S), ("compiles", Json.bool S.compiles), ("wf", Json.bool (App.wf A)),
                ("noClash", Json.bool (App.noClash A)), ("resolvesOk", Json.bool (App.resolvesOk A)),
                ("wfparts", Json.arr (A.allClasses.map (fun C => Json.arr #[strJson C.name,
                   Json.bool (chainOk A.iface (A.iface.classes.length + 1) C), Json.bool (namesNodup C.fields),
                   Json.bool (fieldsWf C.fields), Json.bool ((ownFields A.iface C).all (fun f => arrNsOk A C.ns C.name f.1 f.2))])).toArray)]
  | "valid" =>
    let S := gen (appOf j)
    Json.mkObj [("ok", Json.arr ((getArr j "docs").toList.map (fun d => Json.bool (S.valid (nodeOf d)))).toArray)]
  | "lex" =>
    let b := builtinOfName (getStr j "type")
    Json.mkObj [("ok", Json.bool (simpleOk b [] (getText j "s")))]
  | "verdicts" =>
    -- per document: reference validity, the soft validator's verdict (build-XML's decoder with the
    -- measured switches), and whether the document is in the common form of `lxml_soft_agree`
    let A := appOf j
    let S := gen A
    let t := tyOf (getObj j "ty")
    let X := factsXmlOf j
    Json.mkObj [("ok", Json.arr ((getArr j "docs").toList.map (fun d =>
      let x := nodeOf d
      let soft := match decode F X softCfg A.iface t x with | .ok _ => "ok" | .fault => "fault" | .crash e => "crash:" ++ e
      Json.mkObj [("valid", Json.bool (S.valid x)), ("soft", Json.str soft),
                  ("common", Json.bool (commonForm F X A.tns A.tns t x)),
                  -- the common form the PROPERTY speaks of: xsi:nil and the empty string read as XSD reads them
                  ("commonGood", Json.bool (commonForm F { X with nilRule := .xsdBoolean, emptyStringText := true } A.tns A.tns t x)),
                  ("denote", Json.bool (validS (denote (primFacetsA A) A.tns A.tns t) false x))])).toArray)]
  | "conformsX" =>
    -- the hypotheses of `emitted_valid` on a value
    let t := tyOf (getObj j "ty")
    let v := valOf (getObj j "val")
    Json.mkObj [("conforms", Json.bool (conformsOne t v)), ("xsdRep", Json.bool (leavesOne (leafCond (appOf j)) t v))]
  | op => Json.mkObj [("driver_error", Json.str s!"unknown op {op}")]

end C06

def main : IO Unit := Driver.run C06.step
