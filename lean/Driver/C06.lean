/- Line-protocol driver for the C06 model (published XML Schema: generator, compiles, reference validator). -/
import Driver.XmlCodec
import SpyneModel.SchemaSpec
import SpyneModel.SchemaAttr
import SpyneModel.SchemaMethods
import SpyneModel.Generated.Facts06
open Lean SpyneModel SpyneModel.Xml SpyneModel.Schema Driver XmlCodec

namespace C06

def xsNs : String := "http://www.w3.org/2001/XMLSchema"

def appOf (j : Json) : App :=
  { facts := SpyneModel.Generated.facts06,
    leaf := F,
    values := (getArr j "values").toList.map (fun e =>
      match e with
      | .arr #[p, .arr vs] => (primOf p, vs.toList.map valOf)
      | _ => (.boolean, [])),
    iface := ifaceOf (getObj j "iface"),
    enumKeys := (getArr j "enums").toList.map (fun e =>
      match e with
      | .arr #[.arr names, .str ns, .str tn] =>
        (names.toList.map (fun n => match n with | .str s => s.toList | o => cpsOf o), (ns.toList, tn.toList))
      | _ => ([], ([], []))) }

def keyJson (k : Key) : Json := Json.arr #[strJson k.1, strJson k.2]

def refJson : TypeRef → Json
  | .builtin b => Json.arr #[Json.str xsNs, strJson b.name]
  | .named k => keyJson k

def intJ (i : Int) : Json := Json.str (toString i)

def facetJson : Facet → Json
  | .enumeration v => Json.arr #["enumeration", textJson v]
  | .length n => Json.arr #["length", intJ n]
  | .minLength n => Json.arr #["minLength", intJ n]
  | .maxLength n => Json.arr #["maxLength", intJ n]
  | .pattern p => Json.arr #["pattern", textJson (patternText p)]
  | .minExclusive i => Json.arr #["minExclusive", intJ i]
  | .minInclusive i => Json.arr #["minInclusive", intJ i]
  | .maxExclusive i => Json.arr #["maxExclusive", intJ i]
  | .maxInclusive i => Json.arr #["maxInclusive", intJ i]

def occJson (o : Occ) : Json :=
  Json.arr #[natJ o.minOccurs, (match o.maxOccurs with | some m => natJ m | none => Json.null), Json.bool o.nillable]

def particleJson (p : Particle) : Json := Json.arr #[strJson p.name, refJson p.type, occJson p.occ]

def schemaJson (S : Schema) : Json :=
  Json.mkObj [
    ("tns", strJson S.tns),
    ("simple", Json.arr (S.simple.map (fun e =>
      Json.arr #[keyJson e.1, strJson e.2.base.name, Json.arr (e.2.facets.map facetJson).toArray])).toArray),
    ("complex", Json.arr (S.complex.map (fun e =>
      Json.arr #[keyJson e.1, (match e.2.base with | some b => keyJson b | none => Json.null),
                 Json.arr (e.2.particles.map particleJson).toArray])).toArray),
    ("elements", Json.arr (S.elements.map (fun e => Json.arr #[keyJson e.1, keyJson e.2])).toArray),
    ("imports", Json.arr (S.imports.map (fun e => Json.arr #[strJson e.1, strJson e.2])).toArray)]

def prefMapOf (j : Json) : PrefMap :=
  (getArr j "prefixes").toList.map (fun e =>
    match e with
    | .arr #[.str ns, .str p] => (ns.toList, p.toList)
    | _ => ([], []))

/-- the documents of the set: import order, and every named `type=` / `base=` as it is written -/
def docsJson (pm : PrefMap) (S : Schema) : Json :=
  Json.mkObj [
    ("docs", Json.arr (S.docs.map (fun d => Json.arr #[strJson d.tns, Json.arr (d.imports.map strJson).toArray])).toArray),
    ("qnames", Json.arr (S.namedRefs.map (fun r => Json.arr #[strJson r.1, keyJson r.2,
      (match qnameOf pm r.2 with
       | some q => strJson (q.1 ++ ':' :: q.2)
       | none => Json.null),
      Json.bool ((qnameOf pm r.2).bind (resolveQ pm) == some r.2)])).toArray),
    ("prefixesOk", Json.bool (prefixesOk pm S)),
    ("importsHaveDocs", Json.bool S.importsHaveDocs)]

def appAOf (j : Json) : AppA :=
  let A := appOf (j.setObjVal! "iface" (Json.mkObj [("classes", Json.arr #[]), ("others", Json.arr #[]), ("tns", Json.str "")]))
  { facts := A.facts, leaf := A.leaf, enumKeys := A.enumKeys, values := A.values,
    iface := ifaceAOf (getObj j "iface"),
    modNs := (getArr j "modNs").toList.map (fun e =>
      match e with
      | .arr #[.str t, .str ns] => (t.toList, ns.toList)
      | _ => ([], [])),
    choice := (getArr j "choice").toList.map (fun e =>
      match e with
      | .arr #[.str ns, .str cn, .str k, .str g] => (((ns.toList, cn.toList), k.toList), g.toList)
      | _ => ((([], []), []), [])) }

def itemJson (types : List (Text × TypeRef)) : Item → Json
  | .one k o => Json.arr #["one", strJson k.2, (match types.lookup k.2 with | some t => refJson t | none => Json.null), occJson o]
  | .choice alts => Json.arr #["choice", Json.arr (alts.map (fun a =>
      Json.arr #[strJson a.1.2, (match types.lookup a.1.2 with | some t => refJson t | none => Json.null), occJson a.2])).toArray]

/-- the extended documents: per complexType its base, the items of its own sequence, its own
    attributes and the simpleContent base -/
def schemaXJson (S : SchemaX) : Json :=
  Json.mkObj [
    ("tns", strJson S.core.tns),
    ("simple", Json.arr ((S.core.simple ++ S.xsimple).map (fun e =>
      Json.arr #[keyJson e.1, strJson e.2.base.name, Json.arr (e.2.facets.map facetJson).toArray])).toArray),
    ("complex", Json.arr (S.core.complex.map (fun e =>
      let x : ClassExt := (S.ext.lookup e.1).getD {}
      Json.arr #[keyJson e.1, (match e.2.base with | some b => keyJson b | none => Json.null),
                 Json.arr ((ownItems S.choiceInPlace e.1.1 e.2.particles x.choice).map
                   (itemJson (e.2.particles.map (fun p => (p.name, p.type))))).toArray,
                 Json.arr (x.attrs.map (fun a => Json.arr #[strJson a.name, refJson a.type, Json.bool a.required])).toArray,
                 (match x.data with | some t => refJson t | none => Json.null)])).toArray),
    ("elements", Json.arr (S.core.elements.map (fun e => Json.arr #[keyJson e.1, keyJson e.2])).toArray),
    ("imports", Json.arr (S.imports.map (fun e => Json.arr #[strJson e.1, strJson e.2])).toArray)]

def builtinOfName (s : String) : Builtin :=
  match s with
  | "string" => .string | "boolean" => .boolean | "integer" => .integer .unbounded
  | "byte" => .integer .i8 | "short" => .integer .i16 | "int" => .integer .i32 | "long" => .integer .i64
  | "unsignedByte" => .integer .u8 | "unsignedShort" => .integer .u16 | "unsignedInt" => .integer .u32
  | "unsignedLong" => .integer .u64 | "date" => .date | "time" => .time | "dateTime" => .dateTime
  | "duration" => .duration | "hexBinary" => .hexBinary | _ => .base64Binary

def methodsOf (j : Json) : Methods :=
  match j.getObjVal? "methods" with
  | .ok m =>
    { elems := (getArr m "elems").toList.map (fun e =>
        match e with
        | .arr #[.str n, .str ns, .str tn] => (n.toList, (ns.toList, tn.toList))
        | _ => ([], ([], []))),
      noElem := (getArr m "noElem").toList.map (fun e =>
        match e with
        | .arr #[.str ns, .str tn] => (ns.toList, tn.toList)
        | _ => ([], [])),
      prims := (getArr m "prims").toList.map (fun e =>
        match e with
        | .arr #[.str n, .str b] => (n.toList, builtinOfName b)
        | _ => ([], .string)) }
  | .error _ => {}

def softCfg : Cfg := { validator := .soft, polymorphic := false, parseXsiType := true }

/-- the switches of xml.py as measured by THIS run (the shared Generated/Facts01.lean may be rewritten
    by a concurrent check of another tree) -/
def factsXmlOf (j : Json) : FactsXml :=
  match j.getObjVal? "x" with
  | .ok x =>
    { nilRule := (match getStr x "nilRule" with | "xsdBoolean" => .xsdBoolean | "anyNonEmpty" => .anyNonEmpty | _ => .other),
      xsiTypeCheck := getBool x "xsiTypeCheck", childAttrGuard := getBool x "childAttrGuard",
      emptyStringText := getBool x "emptyStringText",
      -- the streamed emission path is not exercised by C06 (documents come from the tree path)
      streamSameTree := (match x.getObjVal? "streamSameTree" with | .ok (Json.bool b) => b | _ => X.streamSameTree) }
  | .error _ => X

def step (j : Json) : Json :=
  match getStr j "op" with
  | "gen" =>
    let A := appOf j
    let M := methodsOf j
    let S := (gen A).withMethods M
    let sj := schemaJson S
    let sj := sj.setObjVal! "elements" (Json.arr ((S.elements.map (fun e => Json.arr #[keyJson e.1, keyJson e.2]) ++
                M.prims.map (fun e => Json.arr #[keyJson (S.tns, e.1), Json.arr #[Json.str xsNs, strJson e.2.name]])).toArray))
    Json.mkObj [("schema", sj), ("compiles", Json.bool S.compiles), ("wf", Json.bool (App.wf A)),
                ("methodsOk", Json.bool (M.ok (gen A))),
                ("roots", Json.arr ((M.elems.map (·.1) ++ M.prims.map (·.1)).map (fun n =>
                   Json.arr #[strJson (bareRootName A.facts n []), Json.bool ((gen A).declaresRoot M ((gen A).tns, bareRootName A.facts n []))])).toArray),
                ("noClash", Json.bool (App.noClash A)), ("resolvesOk", Json.bool (App.resolvesOk A)),
                ("sameNs", Json.bool (App.sameNsChains A)), ("set", docsJson (prefMapOf j) S),
                ("wfparts", Json.arr (A.allClasses.map (fun C => Json.arr #[strJson C.name,
                   Json.bool (chainOk A.iface (A.iface.classes.length + 1) C), Json.bool (namesNodup C.fields),
                   Json.bool (fieldsWf C.fields), Json.bool ((ownFields A.iface C).all (fun f => arrNsOk A C.ns C.name f.1 f.2))])).toArray)]
  | "genA" =>
    let A := appAOf j
    let S := genA A
    Json.mkObj [("schema", schemaXJson S), ("compiles", Json.bool S.compiles), ("wfA", Json.bool (A.wf && A.facts.dataTypeDefined)), ("coreWf", Json.bool (App.wf A.elemApp))]
  | "validA" =>
    let S := genA (appAOf j)
    Json.mkObj [("ok", Json.arr ((getArr j "docs").toList.map (fun d => Json.bool (S.valid (nodeOf d)))).toArray)]
  | "valid" =>
    let S := gen (appOf j)
    let M := methodsOf j
    Json.mkObj [("ok", Json.arr ((getArr j "docs").toList.map (fun d => Json.bool (S.validM M (nodeOf d)))).toArray)]
  | "lex" =>
    let b := builtinOfName (getStr j "type")
    Json.mkObj [("ok", Json.bool (simpleOk b [] (getText j "s")))]
  | "verdicts" =>
    -- per document: reference validity, the soft validator's verdict (build-XML's decoder with the
    -- measured switches), and whether the document is in the common form of `lxml_soft_agree`
    let A := appOf j
    let S := gen A
    let t := tyOf (getObj j "ty")
    let X := factsXmlOf j
    Json.mkObj [("ok", Json.arr ((getArr j "docs").toList.map (fun d =>
      let x := nodeOf d
      let soft := match decode F X softCfg A.iface t x with | .ok _ => "ok" | .fault => "fault" | .crash e => "crash:" ++ e
      Json.mkObj [("valid", Json.bool (S.valid x)), ("soft", Json.str soft),
                  ("common", Json.bool (commonForm F X A.tns A.tns t x)),
                  -- the common form the PROPERTY speaks of: xsi:nil and the empty string read as XSD reads them
                  ("commonGood", Json.bool (commonForm F { X with nilRule := .xsdBoolean, emptyStringText := true } A.tns A.tns t x)),
                  ("denote", Json.bool (validS (denoteG A A.tns t) false x))])).toArray)]
  | "defaultLit" =>
    Json.mkObj [("lit", match defaultLiteral F (primOf (getObj j "p")) (valOf (getObj j "val")) with
                        | some t => textJson t
                        | none => Json.null)]
  | "conformsX" =>
    -- the hypotheses of `emitted_valid` on a value
    let t := tyOf (getObj j "ty")
    let v := valOf (getObj j "val")
    Json.mkObj [("conforms", Json.bool (conformsOne t v)), ("xsdRep", Json.bool (leavesOne (leafCond (appOf j)) t v))]
  | op => Json.mkObj [("driver_error", Json.str s!"unknown op {op}")]

end C06

def main : IO Unit := Driver.run C06.step
