/- Line-protocol driver for the C09 model (faults). -/
import Driver.Util
import SpyneModel.Faults
import SpyneModel.Generated.Facts09
open Lean SpyneModel SpyneModel.Faults Driver

def F := SpyneModel.Generated.facts09

/-! decoding -/

def jText (j : Json) : Text :=
  match j with
  | .arr a => a.toList.map (fun c => match c.getNat? with | .ok n => Char.ofNat n | .error _ => '?')
  | _ => []

def jField (j : Json) (k : String) : Json :=
  match j.getObjVal? k with | .ok v => v | .error _ => Json.null

def jList (j : Json) : List Json :=
  match j with | .arr a => a.toList | _ => []

mutual
partial def jDetail (j : Json) : Detail :=
  match j with
  | .null => .null
  | _ =>
    match j.getObjVal? "s", j.getObjVal? "l", j.getObjVal? "n" with
    | .ok s, _, _ => .leaf (jText s)
    | _, .ok l, _ => .list ((jList l).map jDetail)
    | _, _, .ok n => (match jList n with | [t, .bool b] => .scalar (jText t) b | _ => .null)
    | _, _, _ => .node (jKvs (jField j "d"))
partial def jKvs (j : Json) : List (Text × Detail) :=
  (jList j).map fun kv => match jList kv with
    | [k, v] => (jText k, jDetail v)
    | _ => ([], .null)
end

def jFault (j : Json) : FaultV :=
  { code := jText (jField j "code"), str := jText (jField j "str"), actor := jText (jField j "actor"),
    detail := match jField j "detail" with | .null => none | d => some (jKvs d),
    lang := jText (jField j "lang"),
    members := (jList (jField j "members")).map fun kv => match jList kv with | [k, v] => (jText k, jText v) | _ => ([], []) }

def jBoolAt (l : List Json) (i : Nat) : Bool :=
  match l[i]? with | some (.bool b) => b | _ => false

def jCls (j : Json) : Cls :=
  let l := jList j
  ⟨jBoolAt l 0, jBoolAt l 1, jBoolAt l 2, jBoolAt l 3⟩

def jProto (j : Json) : Proto :=
  match j with
  | .str "xml" => .xml | .str "soap11" => .soap11 | .str "soap12" => .soap12
  | .str "dict" => .dict false | .str "list" => .dict true
  | .str "msgpackrpc" => .msgpackRpc | _ => .httpRpc

def jExc (j : Json) : Exc :=
  ⟨jText (jField j "type"), jText (jField j "text"), (jList (jField j "frames")).map jText⟩

def jRaised (j : Json) : Raised :=
  match j.getObjVal? "fault" with
  | .ok f => .fault (jCls (jField f "cls")) (jFault (jField f "f"))
  | .error _ =>
    match j.getObjVal? "redirect" with
    | .ok .null => .redirect none
    | .ok e => .redirect (some (jExc e))
    | .error _ => .other (jExc (jField j "other"))

def jStep (j : Json) : Step :=
  match j.getObjVal? "value" with
  | .ok v => .value (jText v)
  | .error _ => .raises (jRaised (jField j "raises"))

def jUser (j : Json) : UserCode :=
  match j.getObjVal? "plain", j.getObjVal? "hook" with
  | .ok s, _ => .plain (jStep s)
  | _, .ok h =>
    match jList h with
    | [site, level, r, body] =>
      .hook (if site == Json.str "return_object" then .returnObject else .methodCall)
        (if level == Json.str "service" then .service else .application) (jRaised r) (jStep body)
    | _ => .plain (.value [])
  | _, _ =>
    match jList (jField j "gen") with
    | [a, .null] => .gen (jStep a) none
    | [a, r] => .gen (jStep a) (some (jRaised r))
    | _ => .plain (.value [])

partial def jXml (j : Json) : Xml :=
  .elem (jText (jField j "t"))
    ((jList (jField j "a")).map fun kv => match jList kv with | [k, v] => (jText k, jText v) | _ => ([], []))
    (jText (jField j "x")) ((jList (jField j "c")).map jXml)

partial def jDoc (j : Json) : Doc :=
  match j with
  | .null => .null
  | _ =>
    match j.getObjVal? "s", j.getObjVal? "i", j.getObjVal? "m", j.getObjVal? "l" with
    | .ok s, _, _, _ => .str (jText s)
    | _, .ok i, _, _ => .int (match i.getInt? with | .ok n => n | .error _ => 0)
    | _, _, .ok m, _ => .map ((jList m).map fun kv => match jList kv with | [k, v] => (jText k, jDoc v) | _ => ([], .null))
    | _, _, _, .ok l => .list ((jList l).map jDoc)
    | _, _, _, _ =>
      match j.getObjVal? "n" with
      | .ok n => (match jList n with | [t, .bool b] => Doc.scalar (jText t) b | _ => .null)
      | .error _ => .null

def jWire (j : Json) : Wire :=
  match j.getObjVal? "xml", j.getObjVal? "doc", j.getObjVal? "text" with
  | .ok x, _, _ => .xml (jXml x)
  | _, .ok d, _ => .doc (jDoc d)
  | _, _, .ok t => .text (jText t)
  | _, _, _ => .ret (jText (jField j "ret"))

/-! encoding -/

mutual
partial def detailJson : Detail → Json
  | .null => Json.null
  | .leaf t => Json.mkObj [("s", textJson t)]
  | .node kvs => Json.mkObj [("d", kvsJson kvs)]
  | .list items => Json.mkObj [("l", Json.arr (items.map detailJson).toArray)]
  | .scalar t fl => Json.mkObj [("n", Json.arr #[textJson t, Json.bool fl])]
partial def kvsJson (kvs : List (Text × Detail)) : Json :=
  Json.arr (kvs.map fun (k, d) => Json.arr #[textJson k, detailJson d]).toArray
end

def optKvsJson : Option (List (Text × Detail)) → Json
  | none => Json.null
  | some kvs => kvsJson kvs

def faultJson (f : FaultV) : Json :=
  Json.mkObj [("code", textJson f.code), ("str", textJson f.str), ("actor", textJson f.actor),
    ("detail", optKvsJson f.detail), ("lang", textJson f.lang),
    ("members", Json.arr (f.members.map fun (k, v) => Json.arr #[textJson k, textJson v]).toArray)]

partial def xmlJson : Xml → Json
  | .elem t a x c => Json.mkObj [("t", textJson t),
      ("a", Json.arr (a.map fun (k, v) => Json.arr #[textJson k, textJson v]).toArray),
      ("x", textJson x), ("c", Json.arr (c.map xmlJson).toArray)]

partial def docJson : Doc → Json
  | .null => Json.null
  | .str t => Json.mkObj [("s", textJson t)]
  | .int n => Json.mkObj [("i", Json.num (JsonNumber.fromInt n))]
  | .map kvs => Json.mkObj [("m", Json.arr (kvs.map fun (k, v) => Json.arr #[textJson k, docJson v]).toArray)]
  | .list xs => Json.mkObj [("l", Json.arr (xs.map docJson).toArray)]
  | .scalar t fl => Json.mkObj [("n", Json.arr #[textJson t, Json.bool fl])]

def wireJson : Wire → Json
  | .xml x => Json.mkObj [("xml", xmlJson x)]
  | .doc d => Json.mkObj [("doc", docJson d)]
  | .text t => Json.mkObj [("text", textJson t)]
  | .ret v => Json.mkObj [("ret", textJson v)]

def clsJson (c : Cls) : Json := Json.arr #[c.tooLong, c.notFound, c.notAllowed, c.invalidCred]

def errJson : Option (Cls × FaultV) → Json
  | none => Json.null
  | some (c, f) => Json.mkObj [("cls", clsJson c), ("f", faultJson f)]

def outObjJson : OutObj → Json
  | .unset => "unset"
  | .value _ => "value"
  | .noneList => "nonelist"
  | .generator _ _ => "generator"

def resultJson : HttpResult → Json
  | .response s w => Json.mkObj [("status", s), ("body", wireJson w)]
  | .escapes => Json.mkObj [("escapes", true)]

def optNat (j : Json) : Option Nat :=
  match j.getNat? with | .ok n => some n | .error _ => none

def step (j : Json) : Json :=
  match getStr j "op" with
  | "status" =>
    Json.mkObj [("ok", statusOf F (jProto (jField j "proto")) (jCls (jField j "cls")) (jText (jField j "code")))]
  | "process" =>
    match process F (jUser (jField j "user")) with
    | some c => Json.mkObj [("out_object", outObjJson c.outObject), ("out_error", errJson c.outError)]
    | none => Json.mkObj [("escapes", true)]
  | "encode" =>
    match encodeFault F (jProto (jField j "proto")) (jFault (jField j "f")) with
    | some w => Json.mkObj [("ok", wireJson w)]
    | none => Json.mkObj [("raises", true)]
  | "decode" =>
    match decodeFault (jProto (jField j "proto")) (jWire (jField j "w")) with
    | some f => Json.mkObj [("ok", faultJson f)]
    | none => Json.mkObj [("ok", Json.null)]
  | "wsgi" =>
    let req : Option Proto := match jField j "req" with | .null => none | r => some (jProto r)
    let aux : List AuxOutcome := (jList (jField j "aux")).map fun a => if a == Json.str "propagates" then .propagates else .done
    resultJson (wsgiAux F (jProto (jField j "proto")) req (optNat (jField j "preset")) (jUser (jField j "user")) aux)
  | "client" =>
    let w := jWire (jField j "w")
    let r := match jProto (jField j "proto") with
      | .soap12 => client12 F w
      | _ => client11 w
    match r with
    | some cf => Json.mkObj [("ok", Json.mkObj [("code", textJson cf.code), ("str", textJson cf.str),
        ("detail", optKvsJson cf.detail)])]
    | none => Json.mkObj [("raises", true)]
  | "ctor" =>
    let b : Builtin := match getStr j "cls" with
      | "InvalidCredentialsError" => .invalidCredentials | "RequestTooLongError" => .requestTooLong
      | "RequestNotAllowed" => .requestNotAllowed | "ArgumentError" => .argumentError
      | "InvalidInputError" => .invalidInput | "MissingFieldError" => .missingField
      | "ValidationError" => .validationError | "InternalError" => .internalError
      | "ResourceNotFoundError" => .resourceNotFound | "RespawnError" => .respawn
      | _ => .resourceAlreadyExists
    let ov : Option Text := match jField j "code" with | .null => none | c => some (jText c)
    Json.mkObj [("ok", textJson (ctorCode F b ov))]
  | "strip" => Json.mkObj [("ok", textJson (strip (jText (jField j "s"))))]
  | op => Json.mkObj [("driver_error", Json.str s!"unknown op {op}")]

def main : IO Unit := Driver.run step
