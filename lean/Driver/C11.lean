/- Line-protocol driver for the C11 model (which function a request runs). -/
import Driver.Util
import SpyneModel.Dispatch
import SpyneModel.DispatchHttp
import SpyneModel.DispatchBytes
import SpyneModel.DispatchSoap
import SpyneModel.Generated.Facts11
open Lean SpyneModel SpyneModel.Dispatch Driver

def F := SpyneModel.Generated.facts11

/-- optional text: JSON null or a code point array -/
def getOptText (j : Json) (k : String) : Option Text :=
  match j.getObjVal? k with
  | .ok (.arr a) => some (a.toList.map (fun c => match c.getNat? with | .ok n => Char.ofNat n | .error _ => '?'))
  | _ => none

def jsonText (j : Json) : Text :=
  match j with
  | .arr a => a.toList.map (fun c => match c.getNat? with | .ok n => Char.ofNat n | .error _ => '?')
  | _ => []

def getPattern (j : Json) : Option (List Text) × Option Text :=
  match j with
  | .arr a =>
    let verb : Option (List Text) := match (a[0]? : Option Json) with
      | some (Json.arr alts) => some (alts.toList.map jsonText)
      | _ => none
    (verb, match a[1]? with | some (Json.arr t) => some (jsonText (Json.arr t)) | _ => none)
  | _ => (none, none)

def getMethodDecl (j : Json) : MethodDecl :=
  { fid := getNat j "fid", func := getText j "func", opName := getOptText j "op",
    inMsg := getOptText j "in", outMsg := getOptText j "out", keySuffix := getText j "suffix",
    patterns := (getArr j "patterns").toList.map getPattern,
    auxOwn := getBool j "auxown", bare := getBool j "bare", bareArg := getBool j "barearg" }

def getServiceDecl (j : Json) : ServiceDecl :=
  { modName := getText j "mod", svcName := getText j "name", aux := getBool j "aux",
    methods := (getArr j "methods").toList.map getMethodDecl, keyMod := getOptText j "keymod" }

def getClassDecl (j : Json) : ClassDecl :=
  { typeName := getText j "name", ns := getOptText j "ns", methods := (getArr j "methods").toList.map getMethodDecl }

def optTextJson : Option Text → Json
  | none => Json.null
  | some t => textJson t

def getRequest (r : Routes) (j : Json) : Request :=
  match getStr j "k" with
  | "null" => .null (getText j "n")
  | "tag" => .tag (getOptText j "ns") (getText j "n")
  | "key" => .key (getText j "n")
  | "rpc" => .rpcName (getText j "n")
  | "http" => httpRequest r (getText j "verb") (getText j "path")
  | _ => .null []

def getBytes (j : Json) (k : String) : List Nat :=
  (getArr j k).toList.map (fun c => match c.getNat? with | .ok n => n | .error _ => 0)

/-- element tree: [ns|null, local, [children]] -/
partial def getXml (j : Json) : Xml :=
  match j with
  | .arr a =>
    let ns : Option Text := match (a[0]? : Option Json) with | some (Json.arr t) => some (jsonText (Json.arr t)) | _ => none
    let loc : Text := match a[1]? with | some t => jsonText t | none => []
    let cs : List Xml := match (a[2]? : Option Json) with | some (Json.arr c) => c.toList.map getXml | _ => []
    .node ns loc cs
  | _ => .node none [] []

/-- what the request amounts to: byte-named requests go through the wire-name decoder -/
def serveJson (r : Routes) (tns : Text) (q : Json) : Resp :=
  match getStr q "k" with
  | "rpcb" => serveWire F r tns .rpcName (.bin (getBytes q "b"))
  | "keyb" => serveWire F r tns .key (.bin (getBytes q "b"))
  | "http" => serveHttp F r tns (getText q "verb") (getText q "path") (getText q "query")
  | "soap" => serveSoap F r tns (getText q "env") (getXml ((q.getObjVal? "doc").toOption.getD Json.null))
  | "keys" => serveDoc F r tns ((getArr q "ns").toList.map (fun t => WireName.text (jsonText t)))
  | _ => serve F r tns (getRequest r q)

def respJson : Resp → Json
  | .ran calls => Json.mkObj [("ran", Json.arr (calls.map (fun (n : Nat) => Json.num (JsonNumber.fromNat n))).toArray)]
  | .notFound => Json.str "Client.ResourceNotFound"
  | .stuck => Json.str "stuck"
  | .clientFault => Json.str "Client.fault"
  | .wsdl => Json.str "wsdl"

def errJson : BuildErr → Json
  | .methodAlreadyExists => "MethodAlreadyExistsError"
  | .valueError => "ValueError"
  | .typeError => "TypeError"

def methodJson (tns : Text) (m : Method) : Json :=
  Json.arr #[Json.num (JsonNumber.fromNat m.fid), textJson m.msgName, textJson (if m.inKeyed then m.inNs.getD tns else []), textJson m.outName,
             textJson (m.outNs.getD tns)]

def step (j : Json) : Json :=
  match getStr j "op" with
  | "app" =>
    let tns := getText j "tns"
    let ss := (getArr j "services").toList.map getServiceDecl
    let cs := (getArr j "classes").toList.map getClassDecl
    match resolveApp F tns ss cs with
    | .error .valueError => Json.mkObj [("decl_error", "ValueError")]
    | .error .mixedAux => Json.mkObj [("decl_error", "Exception")]
    | .ok ms =>
      match build F tns ms with
      | .error e => Json.mkObj [("build_error", errJson e)]
      | .ok r =>
        let routes := r.map (fun kv => Json.arr #[textJson kv.1, Json.arr (kv.2.map (fun m => Json.num (JsonNumber.fromNat m.fid))).toArray])
        let resps := (getArr j "requests").toList.map (fun q => respJson (serveJson r tns q))
        let pats := (sortDesc (httpPatterns r)).map (fun p => Json.arr #[textJson p.addr, Json.num (JsonNumber.fromNat p.efid)])
        let amb := (httpPatterns r).any (fun p => (httpPatterns r).any (fun q => p.ambiguousWith q))
        Json.mkObj [("routes", Json.arr routes.toArray), ("names", Json.arr (ms.map (methodJson tns)).toArray),
                    ("resp", Json.arr resps.toArray), ("patterns", Json.arr pats.toArray),
                    ("ambiguous", Json.bool amb)]
  | "addr" =>
    Json.mkObj [("ok", Json.bool (addrMatches (compileAddr (withSlash (getText j "addr"))) (withSlash (getText j "path"))))]
  | "utf8" =>
    Json.mkObj [("ok", match decodeName (getBytes j "b") with | some t => textJson t | none => Json.null)]
  | "iswsdl" =>
    Json.mkObj [("ok", Json.bool (isWsdlRequest F (getText j "verb") (getText j "path") (getText j "query")))]
  | "verb" =>
    let alts := (getArr j "alts").toList.map jsonText
    Json.mkObj [("ok", Json.bool (verbMatches (some alts) (getText j "verb")))]
  | op => Json.mkObj [("driver_error", Json.str s!"unknown op {op}")]

def main : IO Unit := Driver.run step
