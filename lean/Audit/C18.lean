-- GENERATED: axiom audit for Props/C18*.lean
import Props.C18
#print axioms SpyneModel.Props.C18.null_eq_wire_xml
#print axioms SpyneModel.Props.C18.null_eq_wire_soap
#print axioms SpyneModel.Props.C18.null_eq_wire_json
#print axioms SpyneModel.Props.C18.args_received_xml
#print axioms SpyneModel.Props.C18.args_received_soap
#print axioms SpyneModel.Props.C18.args_received_json
#print axioms SpyneModel.Props.C18.kw_eq_pos
#print axioms SpyneModel.Props.C18.kw_unknown_ignored
#print axioms SpyneModel.Props.C18.kw_none_keeps_positional
#print axioms SpyneModel.Props.C18.ignored_direct_vs_wire
#print axioms SpyneModel.Props.C18.fault_direct_and_wire
#print axioms SpyneModel.Props.C18.generator_direct_vs_wire
#print axioms SpyneModel.Props.C18.undeclared_return_dropped
#print axioms SpyneModel.Props.C18.null_never_crashes
#print axioms SpyneModel.Props.C18.bare_none_view
#print axioms SpyneModel.Props.C18.is_out_bare_iff
#print axioms SpyneModel.Props.C18.body_style_table
#print axioms SpyneModel.Props.C18.whole_list_breaks_wire
#print axioms SpyneModel.Props.C18.empty_tuple_breaks_wire
#print axioms SpyneModel.Props.C18.out_bare_first_breaks_null
#print axioms SpyneModel.Props.C18.class_name_breaks_wire
#print axioms SpyneModel.Props.C18.empty_object_breaks_wire
#print axioms SpyneModel.Props.C18.declared_return_delivered
#print axioms SpyneModel.Props.C18.members_only_breaks_null
#print axioms SpyneModel.Props.C18.wrapper_only_breaks_null
