-- GENERATED: axiom audit for Props/C03*.lean
import Props.C03
#print axioms SpyneModel.Props.C03.facts_good
