-- GENERATED: axiom audit for Props/C03*.lean
import Props.C03
#print axioms SpyneModel.Props.C03.leafLaws03
#print axioms SpyneModel.Props.C03.documented_any_order
#print axioms SpyneModel.Props.C03.documented_query_string
#print axioms SpyneModel.Props.C03.pair_order_irrelevant
#print axioms SpyneModel.Props.C03.documented_strict
#print axioms SpyneModel.Props.C03.key_order_sorts_indexes
#print axioms SpyneModel.Props.C03.lexicographic_order_rejects_twelve_elements
#print axioms SpyneModel.Props.C03.encode_is_documented
#print axioms SpyneModel.Props.C03.roundtrip
#print axioms SpyneModel.Props.C03.sub_names_at_every_depth
#print axioms SpyneModel.Props.C03.documented_any_order_sub_names
#print axioms SpyneModel.Props.C03.roundtrip_sub_names
#print axioms SpyneModel.Props.C03.wsdl_only_when_asked
#print axioms SpyneModel.Props.C03.pair_order_irrelevant_http
#print axioms SpyneModel.Props.C03.s2cmi_index_order
#print axioms SpyneModel.Props.C03.key_indexes
#print axioms SpyneModel.Props.C03.percent_coding_lossless
#print axioms SpyneModel.Props.C03.parse_qs_of_written
#print axioms SpyneModel.Props.C03.leaf_text_exact
#print axioms SpyneModel.Props.C03.soft_only_rejects
#print axioms SpyneModel.Props.C03.documented_soft_partial
#print axioms SpyneModel.Props.C03.same_class_arguments_soft
#print axioms SpyneModel.Props.C03.return_exact
#print axioms SpyneModel.Props.C03.out_header_datetime_same_instant
#print axioms SpyneModel.Props.C03.return_bytes_exact
