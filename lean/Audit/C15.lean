-- GENERATED: axiom audit for Props/C15*.lean
import Props.C15
#print axioms SpyneModel.Props.C15.derive_frame
#print axioms SpyneModel.Props.C15.derive_frame_obs
#print axioms SpyneModel.Props.C15.derive_returns_new
