-- GENERATED: axiom audit for Props/C15*.lean
import Props.C15
#print axioms SpyneModel.Props.C15.good_facts
#print axioms SpyneModel.Props.C15.discipline_initially
#print axioms SpyneModel.Props.C15.discipline_always
#print axioms SpyneModel.Props.C15.variants_are_the_customised
#print axioms SpyneModel.Props.C15.frame_step
#print axioms SpyneModel.Props.C15.frame_step_obs
#print axioms SpyneModel.Props.C15.deriving_touches_nothing
#print axioms SpyneModel.Props.C15.evolving_touches_class_and_variants
#print axioms SpyneModel.Props.C15.history_frame
#print axioms SpyneModel.Props.C15.deep_frame
#print axioms SpyneModel.Props.C15.derive_returns_new
#print axioms SpyneModel.Props.C15.primitive_customize_exact
#print axioms SpyneModel.Props.C15.complex_customize_exact
#print axioms SpyneModel.Props.C15.column_keywords_exact
#print axioms SpyneModel.Props.C15.mandatory_primitive_exact
#print axioms SpyneModel.Props.C15.keyword_loop_writes
#print axioms SpyneModel.Props.C15.number_keeps_max_str_len
#print axioms SpyneModel.Props.C15.append_reaches_all_variants
#print axioms SpyneModel.Props.C15.insert_reaches_all_variants
#print axioms SpyneModel.Props.C15.append_position
#print axioms SpyneModel.Props.C15.insert_position
#print axioms SpyneModel.Props.C15.class_statement_order
#print axioms SpyneModel.Props.C15.class_statement_seed_independent
#print axioms SpyneModel.Props.C15.flat_parents_first
#print axioms SpyneModel.Props.C15.flat_then_own
