-- GENERATED: axiom audit for Props/C09*.lean
import Props.C09
#print axioms SpyneModel.Props.C09.code_join_split
#print axioms SpyneModel.Props.C09.code_split_join
#print axioms SpyneModel.Props.C09.status_dedicated
#print axioms SpyneModel.Props.C09.status_client_iff
#print axioms SpyneModel.Props.C09.status_otherwise_500
#print axioms SpyneModel.Props.C09.status_soap_500
#print axioms SpyneModel.Props.C09.detail_xml_roundtrip
#print axioms SpyneModel.Props.C09.detail_xml_exact
#print axioms SpyneModel.Props.C09.detail_doc_roundtrip
#print axioms SpyneModel.Props.C09.fault_roundtrip_xml
#print axioms SpyneModel.Props.C09.fault_roundtrip_soap11
#print axioms SpyneModel.Props.C09.fault_roundtrip_soap12
#print axioms SpyneModel.Props.C09.fault_roundtrip_dict
#print axioms SpyneModel.Props.C09.fault_roundtrip_msgpackrpc
#print axioms SpyneModel.Props.C09.fault_roundtrip_httprpc_partial
#print axioms SpyneModel.Props.C09.funnel_fault_intact
#print axioms SpyneModel.Props.C09.no_return_on_fault
#print axioms SpyneModel.Props.C09.fault_response
#print axioms SpyneModel.Props.C09.fault_arrives
#print axioms SpyneModel.Props.C09.status_preset_respected
#print axioms SpyneModel.Props.C09.fault_response_generator
#print axioms SpyneModel.Props.C09.no_leak
#print axioms SpyneModel.Props.C09.other_is_internal_error
#print axioms SpyneModel.Props.C09.internal_error_decodes
#print axioms SpyneModel.Props.C09.client11_sees
#print axioms SpyneModel.Props.C09.client12_sees_partial
