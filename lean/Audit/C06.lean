-- GENERATED: axiom audit for Props/C06*.lean
import Props.C06
#print axioms SpyneModel.Props.C06.facts06_good
