-- GENERATED: axiom audit for Props/C06*.lean
import Props.C06
#print axioms SpyneModel.Props.C06.facts06_good
#print axioms SpyneModel.Props.C06.emitted_valid
#print axioms SpyneModel.Props.C06.enumeration_literals_legal
#print axioms SpyneModel.Props.C06.generated_schema_denotes
#print axioms SpyneModel.Props.C06.generated_schema_denotes_same_ns
#print axioms SpyneModel.Props.C06.leaf_literal_valid
#print axioms SpyneModel.Props.C06.default_literal_valid
#print axioms SpyneModel.Props.C06.lxml_soft_agree
#print axioms SpyneModel.Props.C06.gen_compiles
#print axioms SpyneModel.Props.C06.documents_and_imports
#print axioms SpyneModel.Props.C06.no_dangling_qname
#print axioms SpyneModel.Props.C06.method_elements_compile
#print axioms SpyneModel.Props.C06.bare_response_root_declared
#print axioms SpyneModel.Props.C06.gen_compiles_member_kinds
#print axioms SpyneModel.Props.C06.member_kinds_conservative
#print axioms SpyneModel.Props.C06.class_definitions_compile
#print axioms SpyneModel.Props.C06.integer_restriction_legal
#print axioms SpyneModel.Props.C06.string_restriction_legal
#print axioms SpyneModel.Props.C06.repaired_generator_restrictions_legal
#print axioms SpyneModel.Props.C06.written_facets_same_value_space
