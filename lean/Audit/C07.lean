-- GENERATED: axiom audit for Props/C07*.lean
import Props.C07
#print axioms SpyneModel.Props.C07.placeholder
