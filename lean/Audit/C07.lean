-- GENERATED: axiom audit for Props/C07*.lean
import Props.C07
#print axioms SpyneModel.Props.C07.import_order_independent
#print axioms SpyneModel.Props.C07.toposort_order_independent
#print axioms SpyneModel.Props.C07.toposort_complete
#print axioms SpyneModel.Props.C07.wsdl_deterministic
#print axioms SpyneModel.Props.C07.faults_in_tns
#print axioms SpyneModel.Props.C07.message_porttype_binding_refs_closed
#print axioms SpyneModel.Props.C07.schema_refs_closed
#print axioms SpyneModel.Props.C07.header_parts_resolve
#print axioms SpyneModel.Props.C07.definitions_unique
#print axioms SpyneModel.Props.C07.wsdl_closed
#print axioms SpyneModel.Props.C07.prefixes_injective
#print axioms SpyneModel.Props.C07.prefix_search_finds_free
#print axioms SpyneModel.Props.C07.prefixes_injective_any_initial
#print axioms SpyneModel.Props.C07.ops_exactly_once
#print axioms SpyneModel.Props.C07.hashseed_witness
#print axioms SpyneModel.Props.C07.layout_witness
#print axioms SpyneModel.Props.C07.header_ref_witness
#print axioms SpyneModel.Props.C07.porttype_witness
#print axioms SpyneModel.Props.C07.fault_namespace_witness
#print axioms SpyneModel.Props.C07.message_dedup_witness
#print axioms SpyneModel.Props.C07.handler_lookup_witness_last
#print axioms SpyneModel.Props.C07.handler_lookup_witness
#print axioms SpyneModel.Props.C07.xmldata_example_closed
