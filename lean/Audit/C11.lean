-- GENERATED: axiom audit for Props/C11*.lean
import Props.C11
#print axioms SpyneModel.Props.C11.accepted_iff_valid
#print axioms SpyneModel.Props.C11.routing_table
#print axioms SpyneModel.Props.C11.rejection_classes
#print axioms SpyneModel.Props.C11.registered_runs
#print axioms SpyneModel.Props.C11.nothing_else_runs
#print axioms SpyneModel.Props.C11.naming
#print axioms SpyneModel.Props.C11.reached_iff_registered
#print axioms SpyneModel.Props.C11.other_namespace_not_found
#print axioms SpyneModel.Props.C11.qualified_key_not_found
#print axioms SpyneModel.Props.C11.order_irrelevant
#print axioms SpyneModel.Props.C11.order_irrelevant_run
#print axioms SpyneModel.Props.C11.services_perm
#print axioms SpyneModel.Props.C11.rejection_order_irrelevant
#print axioms SpyneModel.Props.C11.duplicate_rejected
#print axioms SpyneModel.Props.C11.interface_key_collision_rejected
#print axioms SpyneModel.Props.C11.public_name_default
#print axioms SpyneModel.Props.C11.public_name_operation
#print axioms SpyneModel.Props.C11.public_name_in_message
#print axioms SpyneModel.Props.C11.pattern_choice_sound
#print axioms SpyneModel.Props.C11.pattern_or_path
#print axioms SpyneModel.Props.C11.pattern_runs
#print axioms SpyneModel.Props.C11.pattern_choice_order_free_partial
#print axioms SpyneModel.Props.C11.literal_address_exact
#print axioms SpyneModel.Props.C11.aux_first_witness
#print axioms SpyneModel.Props.C11.iface_skip_witness
