-- GENERATED: axiom audit for Props/C16*.lean
import Props.C16_hier
import Props.C16_history
import Props.C16_registry
import Props.C16_xml
#print axioms SpyneModel.Props.C16hier.facts02_rt
#print axioms SpyneModel.Props.C16hier.ctx
#print axioms SpyneModel.Props.C16hier.poly_roundtrip_keeps_class
#print axioms SpyneModel.Props.C16hier.poly_marker_resolves
#print axioms SpyneModel.Props.C16hier.poly_array_roundtrip
#print axioms SpyneModel.Props.C16hier.nonpoly_declared_fields_only
#print axioms SpyneModel.Props.C16hier.subclass_members_written_in_order
#print axioms SpyneModel.Props.C16history.flat_info_after_append
#print axioms SpyneModel.Props.C16history.flat_info_after_insert
#print axioms SpyneModel.Props.C16history.use_keeps_flat_info
#print axioms SpyneModel.Props.C16history.find_map_name
#print axioms SpyneModel.Props.C16history.decoder_member_table_knows_appended_member
#print axioms SpyneModel.Props.C16history.ancestor_wire_names_known_to_subclass
#print axioms SpyneModel.Props.C16history.own_wire_names_known
#print axioms SpyneModel.Props.C16registry.subclass_in_base_namespace_is_registered
#print axioms SpyneModel.Props.C16registry.regStep_keeps
#print axioms SpyneModel.Props.C16xml.poly_roundtrip
#print axioms SpyneModel.Props.C16xml.poly_roundtrip_soft
#print axioms SpyneModel.Props.C16xml.poly_keeps_class
#print axioms SpyneModel.Props.C16xml.xsi_type_marks_runtime_class
#print axioms SpyneModel.Props.C16xml.nonpoly_declared_fields_only
#print axioms SpyneModel.Props.C16xml.members_in_declared_order
#print axioms SpyneModel.Props.C16xml.stream_emission_same_tree
#print axioms SpyneModel.Props.C16xml.poly_roundtrip_stream
