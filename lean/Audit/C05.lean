-- GENERATED: axiom audit for Props/C05*.lean
import Props.C05_hier
import Props.C05_xml
#print axioms SpyneModel.Props.C05hier.facts02_rt
#print axioms SpyneModel.Props.C05hier.facts02_mp
#print axioms SpyneModel.Props.C05hier.hier_soft_accepts_conformant
#print axioms SpyneModel.Props.C05hier.hier_verdict_protocol_independent
#print axioms SpyneModel.Props.C05hier.facts02_body
#print axioms SpyneModel.Props.C05hier.facts02_good
#print axioms SpyneModel.Props.C05hier.facts02_bint
#print axioms SpyneModel.Props.C05hier.hier_soft_accepts_only_conformant
#print axioms SpyneModel.Props.C05hier.hier_soft_request_only_conformant
#print axioms SpyneModel.Props.C05hier.hier_soft_iff_conforms
#print axioms SpyneModel.Props.C05hier.hier_soft_rejects_nonconformant
#print axioms SpyneModel.Props.C05xml.xml_soft_accepts_conformant
#print axioms SpyneModel.Props.C05xml.xml_soft_accepted_conforms
#print axioms SpyneModel.Props.C05xml.xml_soft_server_accepted_conforms
#print axioms SpyneModel.Props.C05xml.xml_soft_leaf_exact
#print axioms SpyneModel.Props.C05xml.xml_soft_lexical
#print axioms SpyneModel.Props.C05xml.xml_soft_facet_violation
#print axioms SpyneModel.Props.C05xml.xml_soft_facets_ok
#print axioms SpyneModel.Props.C05xml.xml_soft_empty_element
#print axioms SpyneModel.Props.C05xml.xml_soft_nil_exact
#print axioms SpyneModel.Props.C05xml.xsi_nil_false_is_not_nil
#print axioms SpyneModel.Props.C05xml.xml_soft_freq_enforced
