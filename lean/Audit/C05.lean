-- GENERATED: axiom audit for Props/C05*.lean
import Props.C05_flat
import Props.C05_hier
import Props.C05_xml
import Props.C05_xmlattrs
import Props.C05_xmlvalues
#print axioms SpyneModel.Props.C05flat.leafLaws03
#print axioms SpyneModel.Props.C05flat.facts03_soft
#print axioms SpyneModel.Props.C05flat.flat_soft_accepted_conforms
#print axioms SpyneModel.Props.C05flat.flat_soft_query_accepted_conforms
#print axioms SpyneModel.Props.C05flat.flat_soft_rejects_nonconformant
#print axioms SpyneModel.Props.C05flat.flat_soft_accepts_conformant_partial
#print axioms SpyneModel.Props.C05flat.flat_soft_accepts_query_partial
#print axioms SpyneModel.Props.C05flat.documented_value_conforms
#print axioms SpyneModel.Props.C05flat.flat_soft_only_rejects
#print axioms SpyneModel.Props.C05flat.flat_accepted_is_accepted_by_dict_protocols
#print axioms SpyneModel.Props.C05hier.facts02_rt
#print axioms SpyneModel.Props.C05hier.facts02_mp
#print axioms SpyneModel.Props.C05hier.hier_soft_accepts_conformant
#print axioms SpyneModel.Props.C05hier.hier_verdict_protocol_independent
#print axioms SpyneModel.Props.C05hier.facts02_body
#print axioms SpyneModel.Props.C05hier.facts02_good
#print axioms SpyneModel.Props.C05hier.facts02_nofreq
#print axioms SpyneModel.Props.C05hier.facts02_attr_caches
#print axioms SpyneModel.Props.C05hier.facts02_values_none
#print axioms SpyneModel.Props.C05hier.facts02_bint
#print axioms SpyneModel.Props.C05hier.hier_soft_accepts_only_conformant
#print axioms SpyneModel.Props.C05hier.hier_soft_request_only_conformant
#print axioms SpyneModel.Props.C05hier.hier_soft_iff_conforms
#print axioms SpyneModel.Props.C05hier.hier_soft_rejects_nonconformant
#print axioms SpyneModel.Props.C05xml.xml_soft_accepts_conformant
#print axioms SpyneModel.Props.C05xml.xml_soft_accepted_conforms
#print axioms SpyneModel.Props.C05xml.xml_soft_server_accepted_conforms
#print axioms SpyneModel.Props.C05xml.xml_soft_leaf_exact
#print axioms SpyneModel.Props.C05xml.xml_soft_lexical
#print axioms SpyneModel.Props.C05xml.xml_soft_facet_violation
#print axioms SpyneModel.Props.C05xml.xml_soft_facets_ok
#print axioms SpyneModel.Props.C05xml.xml_soft_empty_element
#print axioms SpyneModel.Props.C05xml.xml_soft_nil_exact
#print axioms SpyneModel.Props.C05xml.xsi_nil_false_is_not_nil
#print axioms SpyneModel.Props.C05xml.xml_soft_freq_enforced
#print axioms SpyneModel.Props.C05xmlattrs.xml_soft_accepts_conformant_attrs
#print axioms SpyneModel.Props.C05xmlattrs.xml_soft_accepted_conforms_attrs
#print axioms SpyneModel.Props.C05xmlattrs.xml_soft_attribute_value_exact
#print axioms SpyneModel.Props.C05xmlvalues.empty_string_not_in_values_is_refused
#print axioms SpyneModel.Props.C05xmlvalues.listed_value_passes
