-- GENERATED: axiom audit for Props/C13*.lean
import Props.C13
#print axioms SpyneModel.Props.C13.facts_good
#print axioms SpyneModel.Props.C13.builtin_statuses_are_three_digit
#print axioms SpyneModel.Props.C13.too_long_status
#print axioms SpyneModel.Props.C13.never_crashes
#print axioms SpyneModel.Props.C13.start_response_exactly_once
#print axioms SpyneModel.Props.C13.start_response_before_body
#print axioms SpyneModel.Props.C13.status_line
#print axioms SpyneModel.Props.C13.body_chunks_are_bytes
#print axioms SpyneModel.Props.C13.content_length_exact
#print axioms SpyneModel.Props.C13.unchunked_sends_content_length
#print axioms SpyneModel.Props.C13.abort_respected
#print axioms SpyneModel.Props.C13.bounded_read
#print axioms SpyneModel.Props.C13.read_within_declared
#print axioms SpyneModel.Props.C13.reads_are_blockwise
#print axioms SpyneModel.Props.C13.reader_terminates
#print axioms SpyneModel.Props.C13.reads_precede_user_code_and_response
#print axioms SpyneModel.Props.C13.too_long_iff_declared_over_limit
#print axioms SpyneModel.Props.C13.too_long_refused_partial
#print axioms SpyneModel.Props.C13.too_long_reads_nothing_runs_nothing
#print axioms SpyneModel.Props.C13.undeclared_overlong_body_is_truncated
#print axioms SpyneModel.Props.C13.user_code_needs_complete_document
#print axioms SpyneModel.Props.C13.user_code_at_most_once
#print axioms SpyneModel.Props.C13.context_closed_once_after_body
#print axioms SpyneModel.Props.C13.wsgi_close_once_after_body
#print axioms SpyneModel.Props.C13.wsdl_conformance
