-- GENERATED: axiom audit for Props/C13*.lean
import Props.C13
#print axioms SpyneModel.Props.C13.stub
