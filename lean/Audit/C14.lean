-- GENERATED: axiom audit for Props/C14*.lean
import Props.C14
#print axioms SpyneModel.Props.C14.listeners_in_order_once
#print axioms SpyneModel.Props.C14.listener_registered_twice_runs_once
#print axioms SpyneModel.Props.C14.listeners_run_in_registration_order
#print axioms SpyneModel.Props.C14.later_registrations_keep_order
#print axioms SpyneModel.Props.C14.subclass_inherits
#print axioms SpyneModel.Props.C14.subclass_own_listeners_after_inherited
#print axioms SpyneModel.Props.C14.fire_calls_in_order_until_raise
#print axioms SpyneModel.Props.C14.fire_outcome_first_raiser
#print axioms SpyneModel.Props.C14.automaton_sound
#print axioms SpyneModel.Props.C14.trace_spec_table
#print axioms SpyneModel.Props.C14.escapes_exactly
#print axioms SpyneModel.Props.C14.wsgi_never_escapes
#print axioms SpyneModel.Props.C14.trace_spec
#print axioms SpyneModel.Props.C14.created_first_closed_last_once
#print axioms SpyneModel.Props.C14.user_function_at_most_once_after_method_call
#print axioms SpyneModel.Props.C14.return_object_iff_returned_normally
#print axioms SpyneModel.Props.C14.exception_object_iff_fault
#print axioms SpyneModel.Props.C14.document_and_string_events_follow
#print axioms SpyneModel.Props.C14.created_closed_application_level_only
#print axioms SpyneModel.Props.C14.transport_events
#print axioms SpyneModel.Props.C14.first_app_listener_sees_spec
#print axioms SpyneModel.Props.C14.quiet_listener_views
#print axioms SpyneModel.Props.C14.lower_levels_never_see_created_closed
#print axioms SpyneModel.Props.C14.serialize_failure_needs_exception_object
#print axioms SpyneModel.Props.C14.parse_escape_breaks_closed
