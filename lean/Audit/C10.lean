-- GENERATED: axiom audit for Props/C10*.lean
import Props.C10
import Props.C10_hier
import Props.C10_xml
import Props.C10_xmlattrs
#print axioms SpyneModel.Props.C10.facts10_catch_alls
#print axioms SpyneModel.Props.C10.facts10_faults_kept
#print axioms SpyneModel.Props.C10.facts10_table
#print axioms SpyneModel.Props.C10.facts10_rejections
#print axioms SpyneModel.Props.C10.facts10_status
#print axioms SpyneModel.Props.C10.funnel_total
#print axioms SpyneModel.Props.C10.funnel_total_wsgi
#print axioms SpyneModel.Props.C10.malformed_is_client_fault
#print axioms SpyneModel.Props.C10.codec_fault_is_the_answer
#print axioms SpyneModel.Props.C10.transport_reject_is_client
#print axioms SpyneModel.Props.C10.malformed_is_4xx
#print axioms SpyneModel.Props.C10.fault_means_not_called
#print axioms SpyneModel.Props.C10.fault_means_not_called_wsgi
#print axioms SpyneModel.Props.C10.valid_request_called_once
#print axioms SpyneModel.Props.C10.normal_answer_means_one_call
#print axioms SpyneModel.Props.C10.answered_or_client_fault
#print axioms SpyneModel.Props.C10.xml_request_called_or_client_fault
#print axioms SpyneModel.Props.C10.soap_request_called_or_client_fault
#print axioms SpyneModel.Props.C10.dict_request_called_or_client_fault
#print axioms SpyneModel.Props.C10.facts10_envelopes
#print axioms SpyneModel.Props.C10.soap_envelope_called_or_client_fault
#print axioms SpyneModel.Props.C10.facts10_hrefs
#print axioms SpyneModel.Props.C10.soap_multiref_called_or_client_fault
#print axioms SpyneModel.Props.C10.facts10_urls
#print axioms SpyneModel.Props.C10.funnel_total_wsgi_url
#print axioms SpyneModel.Props.C10.facts10_fault_documents
#print axioms SpyneModel.Props.C10.fault_document_always_written
#print axioms SpyneModel.Props.C10.shared_leaf_never_crashes
#print axioms SpyneModel.Props.C10.decimal_leaf_never_crashes
#print axioms SpyneModel.Props.C10.uuid_leaf_never_crashes
#print axioms SpyneModel.Props.C10.double_leaf_never_crashes
#print axioms SpyneModel.Props.C10.datetime_as_timezone_never_crashes
#print axioms SpyneModel.Props.C10hier.facts02_body
#print axioms SpyneModel.Props.C10hier.facts02_good
#print axioms SpyneModel.Props.C10hier.facts02_parse
#print axioms SpyneModel.Props.C10hier.hier_decode_no_crash
#print axioms SpyneModel.Props.C10hier.hier_request_no_crash
#print axioms SpyneModel.Props.C10hier.hier_request_called_or_client_fault
#print axioms SpyneModel.Props.C10hier.hier_server_no_crash
#print axioms SpyneModel.Props.C10xml.xml_decode_no_crash
#print axioms SpyneModel.Props.C10xml.xml_server_no_crash
#print axioms SpyneModel.Props.C10xml.soap_server_no_crash
#print axioms SpyneModel.Props.C10xml.server_outcome
#print axioms SpyneModel.Props.C10xmlattrs.xml_decode_no_crash_attrs
#print axioms SpyneModel.Props.C10xmlattrs.modifier_value_no_crash
