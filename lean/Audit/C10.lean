-- GENERATED: axiom audit for Props/C10*.lean
import Props.C10_hier
import Props.C10_xml
#print axioms SpyneModel.Props.C10hier.facts02_body
#print axioms SpyneModel.Props.C10hier.facts02_good
#print axioms SpyneModel.Props.C10hier.facts02_parse
#print axioms SpyneModel.Props.C10hier.hier_decode_no_crash
#print axioms SpyneModel.Props.C10hier.hier_request_no_crash
#print axioms SpyneModel.Props.C10hier.hier_request_called_or_client_fault
#print axioms SpyneModel.Props.C10hier.hier_server_no_crash
#print axioms SpyneModel.Props.C10xml.xml_decode_no_crash
#print axioms SpyneModel.Props.C10xml.xml_server_no_crash
#print axioms SpyneModel.Props.C10xml.soap_server_no_crash
#print axioms SpyneModel.Props.C10xml.server_outcome
