-- GENERATED: axiom audit for Props/C04*.lean
import Props.C04_hier
import Props.C04_xml
import Props.C04_xmlattrs
#print axioms SpyneModel.Props.C04hier.facts02_body
#print axioms SpyneModel.Props.C04hier.facts02_good
#print axioms SpyneModel.Props.C04hier.hier_decode_sound
#print axioms SpyneModel.Props.C04hier.hier_request_sound
#print axioms SpyneModel.Props.C04hier.facts02_file
#print axioms SpyneModel.Props.C04hier.hier_file_object_form_sound
#print axioms SpyneModel.Props.C04hier.facts02_number_kinds
#print axioms SpyneModel.Props.C04hier.facts02_int_from_float
#print axioms SpyneModel.Props.C04hier.facts02_nofreq_kinds
#print axioms SpyneModel.Props.C04hier.facts02_retag
#print axioms SpyneModel.Props.C04hier.hier_wrapper_retag_rejected
#print axioms SpyneModel.Props.C04xml.xml_decode_sound
#print axioms SpyneModel.Props.C04xml.xml_server_decode_sound
#print axioms SpyneModel.Props.C04xml.soap_server_decode_sound
#print axioms SpyneModel.Props.C04xml.retag_rejected
#print axioms SpyneModel.Props.C04xml.retag_fault
#print axioms SpyneModel.Props.C04xml.unknown_xsi_type_fault
#print axioms SpyneModel.Props.C04xmlattrs.xml_decode_sound_attrs
#print axioms SpyneModel.Props.C04xmlattrs.modifier_value_kind
#print axioms SpyneModel.Props.C04xmlattrs.enum_text_must_be_a_member
#print axioms SpyneModel.Props.C04xmlattrs.enum_member_is_read
