-- GENERATED: axiom audit for Props/C08.lean
import Props.C08
#print axioms SpyneModel.Props.C08.bool_roundtrip
