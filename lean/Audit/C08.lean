-- GENERATED: axiom audit for Props/C08*.lean
import Props.C08
import Props.C08_more
#print axioms SpyneModel.Props.C08.int_roundtrip_unbounded
#print axioms SpyneModel.Props.C08.int_roundtrip_bounded
#print axioms SpyneModel.Props.C08.bool_roundtrip
#print axioms SpyneModel.Props.C08.bool_literals
#print axioms SpyneModel.Props.C08.bool_nonliteral_rejected
#print axioms SpyneModel.Props.C08.offset_roundtrip
#print axioms SpyneModel.Props.C08.offset_literal
#print axioms SpyneModel.Props.C08.date_roundtrip
#print axioms SpyneModel.Props.C08.time_roundtrip
#print axioms SpyneModel.Props.C08.datetime_roundtrip
#print axioms SpyneModel.Props.C08.duration_roundtrip
#print axioms SpyneModel.Props.C08.hex_roundtrip
#print axioms SpyneModel.Props.C08.base64_roundtrip
#print axioms SpyneModel.Props.C08.urlsafe_base64_roundtrip
#print axioms SpyneModel.Props.C08.hex_in_lexical_space
#print axioms SpyneModel.Props.C08.base64_in_lexical_space
#print axioms SpyneModel.Props.C08more.dec_roundtrip
#print axioms SpyneModel.Props.C08more.dec_plain_in_lexical_space
#print axioms SpyneModel.Props.C08more.dec_scientific_not_lexical
#print axioms SpyneModel.Props.C08more.dec_literal_read
#print axioms SpyneModel.Props.C08more.int_in_lexical_space
#print axioms SpyneModel.Props.C08more.int_literal_read
#print axioms SpyneModel.Props.C08more.bool_in_lexical_space
#print axioms SpyneModel.Props.C08more.bool_literal_read
#print axioms SpyneModel.Props.C08more.date_in_lexical_space
#print axioms SpyneModel.Props.C08more.time_in_lexical_space
#print axioms SpyneModel.Props.C08more.datetime_in_lexical_space
#print axioms SpyneModel.Props.C08more.datetime_literal_read
#print axioms SpyneModel.Props.C08more.datetime_literal_read_rounded
#print axioms SpyneModel.Props.C08more.duration_in_lexical_space
#print axioms SpyneModel.Props.C08more.duration_literal_read
