-- GENERATED: axiom audit for Props/C17*.lean
import Props.C17
#print axioms SpyneModel.Props.C17.defaults_safe
