-- GENERATED: axiom audit for Props/C17*.lean
import Props.C17
#print axioms SpyneModel.Props.C17.defaults_safe
#print axioms SpyneModel.Props.C17.ctor_defaults_reach_parser
#print axioms SpyneModel.Props.C17.plumbing_direct
#print axioms SpyneModel.Props.C17.safe_iff_arguments
#print axioms SpyneModel.Props.C17.configuration_private
#print axioms SpyneModel.Props.C17.no_writes_after_init
#print axioms SpyneModel.Props.C17.request_time_is_constructor
#print axioms SpyneModel.Props.C17.safe_invariant
#print axioms SpyneModel.Props.C17.defaults_safe_at_request
#print axioms SpyneModel.Props.C17.all_request_sites_use_kwargs
#print axioms SpyneModel.Props.C17.all_request_sites_catch
#print axioms SpyneModel.Props.C17.request_roles_good
#print axioms SpyneModel.Props.C17.no_xinclude_pass
#print axioms SpyneModel.Props.C17.no_fetch
#print axioms SpyneModel.Props.C17.noninterference
#print axioms SpyneModel.Props.C17.dtd_never_loaded
#print axioms SpyneModel.Props.C17.text_never_substituted
#print axioms SpyneModel.Props.C17.no_network_ever
#print axioms SpyneModel.Props.C17.nesting_bomb_rejected
#print axioms SpyneModel.Props.C17.bomb_memory_bounded_partial
#print axioms SpyneModel.Props.C17.entity_loop_rejected
#print axioms SpyneModel.Props.C17.request_noninterference
#print axioms SpyneModel.Props.C17.request_touches_nothing
#print axioms SpyneModel.Props.C17.parser_stage_never_crashes
#print axioms SpyneModel.Props.C17.rejected_is_client_fault
#print axioms SpyneModel.Props.C17.nesting_bomb_is_client_fault
