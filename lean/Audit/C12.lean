-- GENERATED: axiom audit for Props/C12*.lean
import Props.C12
#print axioms SpyneModel.Props.C12.concurrent_requests_do_not_interfere
#print axioms SpyneModel.Props.C12.wsdl_built_at_most_once
#print axioms SpyneModel.Props.C12.alone_wsdl_is_the_sequential_document
#print axioms SpyneModel.Props.C12.alone_rpc_is_the_sequential_response
#print axioms SpyneModel.Props.C12.wsdl_once_and_whole
#print axioms SpyneModel.Props.C12.wsdl_without_failures
#print axioms SpyneModel.Props.C12.wsdl_failed_build_is_retried
#print axioms SpyneModel.Props.C12.wsdl_cache_never_reverts
#print axioms SpyneModel.Props.C12.wsdl_mutual_exclusion
#print axioms SpyneModel.Props.C12.wsdl_no_deadlock
#print axioms SpyneModel.Props.C12.wsdl_progress
#print axioms SpyneModel.Props.C12.wsdl_scheduler_runs_are_covered
#print axioms SpyneModel.Props.C12.pinned_handler_loses_the_document
#print axioms SpyneModel.Props.C12.lock_released_only_on_success_deadlocks
#print axioms SpyneModel.Props.C12.builder_must_reset_its_dicts
#print axioms SpyneModel.Props.C12.requests_with_safe_operations_do_not_interfere
#print axioms SpyneModel.Props.C12.every_modelled_operation_is_safe
#print axioms SpyneModel.Props.C12.cache_transparent
#print axioms SpyneModel.Props.C12.no_cross_talk
#print axioms SpyneModel.Props.C12.attr_publication_order_matters
#print axioms SpyneModel.Props.C12.error_log_read_must_be_atomic
#print axioms SpyneModel.Props.C12.parked_request_data_crosses_threads
#print axioms SpyneModel.Props.C12.rebinding_a_shared_protocol_fails_the_loser
#print axioms SpyneModel.Props.C12.shared_context_cell_crosses_threads
