-- GENERATED: axiom audit for Props/C01*.lean
import Props.C01
import Props.C01_attrs
import Props.C01_ext
import Props.C01_history
import Props.C01_options
import Props.C01_spelling
#print axioms SpyneModel.Props.C01.nil_true_is_nil
#print axioms SpyneModel.Props.C01.nil_false_carries_value
#print axioms SpyneModel.Props.C01.xml_roundtrip
#print axioms SpyneModel.Props.C01.xml_roundtrip_soft
#print axioms SpyneModel.Props.C01.soft_sendable_conforms
#print axioms SpyneModel.Props.C01.server_request_fidelity_xml
#print axioms SpyneModel.Props.C01.server_request_fidelity_soap
#print axioms SpyneModel.Props.C01.server_request_fidelity_soft
#print axioms SpyneModel.Props.C01.norm_bytes
#print axioms SpyneModel.Props.C01.norm_empty_repeated
#print axioms SpyneModel.Props.C01.norm_nonempty_bytes
#print axioms SpyneModel.Props.C01.norm_leaf_str
#print axioms SpyneModel.Props.C01attrs.rtCtxA
#print axioms SpyneModel.Props.C01attrs.xml_roundtrip_attrs
#print axioms SpyneModel.Props.C01attrs.children_never_set_modifier_members
#print axioms SpyneModel.Props.C01attrs.attributes_never_set_other_members
#print axioms SpyneModel.Props.C01attrs.attribute_member_never_child_element
#print axioms SpyneModel.Props.C01attrs.nil_element_with_attributes
#print axioms SpyneModel.Props.C01attrs.attrs_decode_is_decode
#print axioms SpyneModel.Props.C01attrs.attrs_encode_is_encode
#print axioms SpyneModel.Props.C01ext.rtCtx
#print axioms SpyneModel.Props.C01ext.soap_in_headers_reach_function
#print axioms SpyneModel.Props.C01ext.soap_no_header_is_none
#print axioms SpyneModel.Props.C01ext.soap_out_headers_reach_client
#print axioms SpyneModel.Props.C01ext.out_header_tuple_like_list
#print axioms SpyneModel.Props.C01ext.no_out_header_no_element
#print axioms SpyneModel.Props.C01ext.request_fidelity_any_style
#print axioms SpyneModel.Props.C01ext.argsOf_bare
#print axioms SpyneModel.Props.C01ext.argsOf_empty
#print axioms SpyneModel.Props.C01ext.argsOf_wrapped
#print axioms SpyneModel.Props.C01ext.response_fidelity_any_style
#print axioms SpyneModel.Props.C01ext.bare_nothing_is_the_empty_response
#print axioms SpyneModel.Props.C01ext.multiple_returns_in_order
#print axioms SpyneModel.Props.C01ext.client_packs_every_keyword
#print axioms SpyneModel.Props.C01ext.client_call_fidelity
#print axioms SpyneModel.Props.C01history.request_decoded_with_current_members
#print axioms SpyneModel.Props.C01history.appended_member_is_decoded
#print axioms SpyneModel.Props.C01history.renamed_ancestor_member_is_decoded
#print axioms SpyneModel.Props.C01options.sent_value_beats_default
#print axioms SpyneModel.Props.C01options.absent_or_nil_takes_the_default
#print axioms SpyneModel.Props.C01options.nil_stays_none_without_the_option
#print axioms SpyneModel.Props.C01options.no_default_no_change
#print axioms SpyneModel.Props.C01options.href_stands_for_the_referenced_content
#print axioms SpyneModel.Props.C01options.no_href_no_change
#print axioms SpyneModel.Props.C01spelling.server_sees_denoted_tree
#print axioms SpyneModel.Props.C01spelling.decode_of_any_spelling
#print axioms SpyneModel.Props.C01spelling.same_denotation_same_outcome
#print axioms SpyneModel.Props.C01spelling.comments_and_pis_denote_nothing
#print axioms SpyneModel.Props.C01spelling.text_pieces_and_cdata_denote_the_text
#print axioms SpyneModel.Props.C01spelling.respelled_child
#print axioms SpyneModel.Props.C01spelling.chunked_bytes_written_as_concatenation
#print axioms SpyneModel.Props.C01spelling.own_xsi_type_resolves_to_the_declared_class
