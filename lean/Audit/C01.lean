-- GENERATED: axiom audit for Props/C01*.lean
import Props.C01
#print axioms SpyneModel.Props.C01.nil_true_is_nil
#print axioms SpyneModel.Props.C01.nil_false_carries_value
#print axioms SpyneModel.Props.C01.xml_roundtrip
#print axioms SpyneModel.Props.C01.xml_roundtrip_soft
#print axioms SpyneModel.Props.C01.soft_sendable_conforms
#print axioms SpyneModel.Props.C01.server_request_fidelity_xml
#print axioms SpyneModel.Props.C01.server_request_fidelity_soap
#print axioms SpyneModel.Props.C01.server_request_fidelity_soft
#print axioms SpyneModel.Props.C01.norm_bytes
#print axioms SpyneModel.Props.C01.norm_empty_repeated
#print axioms SpyneModel.Props.C01.norm_nonempty_bytes
#print axioms SpyneModel.Props.C01.norm_leaf_str
