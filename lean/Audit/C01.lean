-- GENERATED: axiom audit for Props/C01*.lean
import Props.C01
#print axioms SpyneModel.Props.C01.none_optional_omitted
