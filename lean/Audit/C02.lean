-- GENERATED: axiom audit for Props/C02*.lean
import Props.C02
#print axioms SpyneModel.Props.C02.facts02_rt
#print axioms SpyneModel.Props.C02.facts02_mp
#print axioms SpyneModel.Props.C02.hier_roundtrip
#print axioms SpyneModel.Props.C02.hier_request_fidelity
#print axioms SpyneModel.Props.C02.hier_client_request_roundtrip
#print axioms SpyneModel.Props.C02.hier_decodes_conventional
#print axioms SpyneModel.Props.C02.hier_decodes_msgpack_keys
#print axioms SpyneModel.Props.C02.hier_response_fidelity
#print axioms SpyneModel.Props.C02.facts02_guard
#print axioms SpyneModel.Props.C02.facts02_bytes_join
#print axioms SpyneModel.Props.C02.facts02_not_wrapped
#print axioms SpyneModel.Props.C02.ownSpellG_eq
#print axioms SpyneModel.Props.C02.hier_encoding_ignores_identity
#print axioms SpyneModel.Props.C02.hier_aliasing_invisible
#print axioms SpyneModel.Props.C02.hier_response_fidelity_aliased
#print axioms SpyneModel.Props.C02.bigint_survives
#print axioms SpyneModel.Props.C02.bigint_survives_msgpack
#print axioms SpyneModel.Props.C02.utf8_roundtrip
